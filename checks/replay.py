"""Replay a violation file in this (fresh) interpreter.  The explicit plan/ops/faults
and choice trace are re-executed -- not the seed -- and must reproduce the same violation
class and the same event-log digest."""

from common import say
from hsim import core


def _engine(rec):
    eng = rec["engine"]
    if eng == "procsim-syn":
        from hsim import syn

        return syn.run_replay
    import importlib

    mod = importlib.import_module("hsim.engines")
    return mod.replayer(eng)


def main(path):
    import warnings

    from hsim import batch

    core.assert_repo_import()
    warnings.simplefilter("ignore")
    batch.quiet_stdio()
    rec = core.read_replay(path)
    out = _engine(rec)(rec)
    want = rec.get("violation") or {}
    got = out.get("violation") or {}
    same_digest = out.get("event_log_digest") == rec.get("event_log_digest")
    say(f"replay {path}: expected class={want.get('class')} got class={got.get('class')} "
        f"digest_match={same_digest}")
    if got and got.get("class") == want.get("class"):
        say(f"  detail: {got.get('detail')}")
        say(f"VIOLATION property={rec['property']} replay={path}")
        return 1
    say("  the recorded violation did not reproduce on this tree")
    return 0
