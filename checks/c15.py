"""C15 - regridding is history independent (regridsim).

Seeded histories of redistributePoints / write operations on a live non-orthogonal
tokamak mesh (all topologies with targets), including returns to earlier settings,
repeated settings, junk (non-nonorthogonal) options, invalid values, settings outside the
envelope that raise half-way, and (thorough) injected refine failures / timeouts during a
regrid; always ending with a successful regrid + write that is compared with a mesh built
from scratch with the final settings.
"""

import collections
import os
import shutil

from common import Report, say
from hsim import batch, core, engines, regridsim as RS

SIZES = {"quick": 24, "thorough": 480}


def _case(seed, i, tier):
    s = core.run_seed(seed, "c15-regrid", i)
    rng = core.stream(s, "case")
    # every 8th history changes nonorthogonal_spacing_method (see known_findings.json)
    mc = (i % 8 == 5)
    geoms = RS.GEOMS if tier == "thorough" else ("lsn", "usn", "cdn", "lsn", "ldn", "udn")
    np_choices = (1, 1, 1, 2) if tier == "thorough" else ((2,) if i % 12 == 7 else (1,))
    case = RS.make_case(rng, allow_method_change=mc, faults_ok=True,
                        geoms=geoms, np_choices=np_choices)
    if i % 6 == 2:
        # stratum: a regrid that raises half-way, then the repair of only the bad values
        extra = RS.make_case(core.stream(s, "outside"), geoms=(case["workload"]["geometry"],))
        pool = RS.settings_pool(case["workload"]["geometry"])
        good = dict(pool[1 + (i // 6) % (len(pool) - 1)])
        bad = dict(RS.OUTSIDE[(i // 6 * 3 + 5) % len(RS.OUTSIDE)])
        good = {k: v for k, v in good.items() if k not in bad}
        if i % 12 == 2:
            # raise half-way, repair only the bad values, and stay there
            case["ops"] = [{"op": "regrid", "s": dict(good, **bad), "tag": "outside"},
                           {"op": "regrid", "s": dict(good), "tag": "repair-final"},
                           {"op": "write"}]
        else:
            # raise half-way, then go back to exactly the settings that worked last
            first = {"op": "regrid", "s": dict(good, **bad), "tag": "outside"}
            if (i // 12) % 3 != 2:
                # ... refused at a depth the simulator chooses (faults.RegridRefusal):
                # some contours have been moved when the user goes back
                first = {"op": "regrid", "s": dict(good), "tag": "outside",
                         "refuse_at": (3, 2, 5, 9, 14)[(i // 12) % 5]}
            case["ops"] = [first,
                           {"op": "regrid", "s": dict(case["s0"]), "tag": "undo-final"},
                           {"op": "write"}]
        del extra
    if i % 6 == 4 and not any("junk" in op for op in case["ops"]):
        # stratum: the GUI passes its whole options table; other rows may have been edited
        case["ops"][-2] = dict(case["ops"][-2], junk=dict(RS.JUNK_BENIGN))
    if i % 12 == 6 and not mc:
        # stratum: back to the defaults by passing a literally empty dict, from a state
        # that is not the default one
        pool = RS.settings_pool(case["workload"]["geometry"])
        if not case["s0"] and not any(op["op"] == "regrid" and op.get("s") for op in case["ops"][:-2]):
            case["s0"] = dict(pool[1 + (i // 12) % (len(pool) - 1)])
        case["ops"][-2] = {"op": "regrid", "s": {}, "partial": True, "tag": "defaults"}
    if i % 12 == 9 and not any(op["op"] == "other_mesh" for op in case["ops"]):
        # stratum: another mesh of another topology was regridded earlier in the session
        case["ops"].insert(0, RS.other_mesh_op(core.stream(s, "other"),
                                               case["workload"]["geometry"]))
    if mc and not RS.has_method_change(case):
        case["ops"][-2]["s"]["nonorthogonal_spacing_method"] = (
            "poloidal_orthogonal_combined" if RS.method_of(case["s0"]) == "combined"
            else "combined")
    case["sched_seed"] = s % 10**9
    return case


def _ref_job(arg):
    case, refdir = arg
    return RS.reference(case, refdir)[1]


def _seq_job(arg):
    case, refdir = arg
    return RS.run_case(case, refdir)


def _minimise(rec, refdir, max_evals=5):
    """Drop operations (never the final regrid + write) while the same violation class
    persists; each evaluation re-runs the whole history, so the budget is small."""
    from hsim.minimize import minimize

    cls = rec["violation"]["class"]
    best = {"rec": rec}

    def cands(case):
        ops = case["ops"]
        for k in range(len(ops) - 2):
            yield dict(case, ops=ops[:k] + ops[k + 1:])
        if case["s0"]:
            s0 = {k: v for k, v in case["s0"].items()
                  if k == "nonorthogonal_spacing_method"}
            if s0 != case["s0"]:
                yield dict(case, s0=s0)

    def test(case):
        r = RS.run_case(case, refdir)
        ok = r["violation"] is not None and r["violation"]["class"] == cls
        if ok:
            best["rec"] = r
        return ok

    case0 = {k: v for k, v in rec["case"].items() if k != "choices"}
    minimize(case0, cands, test, max_evals=max_evals, max_seconds=400)
    best["rec"]["minimised_from_ops"] = len(rec["case"]["ops"])
    return best["rec"]


def main(tier, seed):
    core.assert_repo_import()
    rep = Report("C15", tier, seed)
    n = SIZES[tier]
    cases = [_case(seed, i, tier) for i in range(n)]
    refdir = engines.scratch_dir()
    info = {}
    samples = []
    shapes = set()
    try:
        def phase():
            # phase 1: one fresh reference per distinct (workload, final settings)
            uniq = {}
            for c in cases:
                final = [op for op in c["ops"] if op["op"] == "regrid"][-1]["s"]
                uniq.setdefault(core.digest_of([dict(c["workload"], np=1), final], 16), c)
            how = batch.map_chunks(_ref_job, [(c, refdir) for c in uniq.values()],
                                   limit_s=1500)
            refs_ok = sum(1 for h in how if h in ("built", "cached"))
            say(f"[C15] {len(uniq)} fresh reference builds ({refs_ok} generated)")
            res = batch.map_chunks(_seq_job, [(c, refdir) for c in cases], limit_s=2400)
            return len(uniq), refs_ok, res

        out = rep.phase("sequences", phase)
        status = collections.Counter()
        probes = collections.Counter()
        opkinds = collections.Counter()
        max_rel = 0.0
        max_end = 0.0
        sim_time = 0
        if out is not None:
            nref, refs_ok, res = out
            for c, r in zip(cases, res):
                status[r["status"]] += 1
                for k, v in r["probes"].items():
                    probes[k] += v
                for o in r["outcomes"]:
                    opkinds[":".join(o[:2])] += 1
                if r["status"] == "compared" and r["violation"] is None:
                    shapes.add(RS.shape_of(c))
                    max_rel = max(max_rel, r["observed_max_rel"] or 0.0)
                    if len(samples) < 2 and len(c["ops"]) >= 4:
                        samples.append({"case": c, "outcomes": r["outcomes"],
                                        "observed_worst": r["observed_worst"]})
                max_end = max(max_end, r["worst_endpoint_move"] or 0.0)
                sim_time += r.get("sim_time_us") or 0
                if r["violation"]:
                    v = r["violation"]
                    geom = c["workload"]["geometry"]
                    if RS.has_method_change(c) and v["class"] in ("HISTORY_DEPENDENCE",):
                        key = "HISTORY:spacing_method_changed_by_regrid"
                    else:
                        key = f"{v['class']}:{geom}"
                    if key not in rep.violations and key not in rep.known:
                        r = _minimise(r, refdir)
                    rep.violation(key, r, text=v["detail"])
            info = {"sequences": n, "reference_builds": nref, "references_generated": refs_ok,
                    "status": dict(status), "op_outcomes": dict(opkinds),
                    "probes": dict(probes), "distinct_shapes_compared": len(shapes),
                    "observed_max_rel_dev": max_rel, "observed_max_endpoint_move_m": max_end,
                    "tolerances": {"abs": RS.POS_TOL, "rel": RS.REL_TOL},
                    "sim_time_s": sim_time / 1e6}
            say(f"[C15] {n} histories: {dict(status)}; op outcomes {dict(opkinds)}; "
                f"max rel dev {max_rel:.2e}; max end-point move {max_end:.2e} m")
    finally:
        shutil.rmtree(refdir, ignore_errors=True)
    coverage = {
        "evaluations": max(n, 1),
        "distinct_nontrivial": len(shapes),
        "rule": "one evaluation = one history (initial non-orthogonal build, 0-3 operations "
                "from {regrid, return to earlier settings, repeat, regrid with junk options, "
                "invalid value, settings that raise half-way or a refusal injected at a "
                "chosen contour (faults.RegridRefusal), write, regrid under injected refine "
                "failure/timeout, another mesh of another topology regridded in the same "
                "interpreter}, final regrid + write) compared with a fresh build. "
                "Distinct non-trivial = distinct (topology, guards, initial settings, "
                "operation sequence) shapes among histories whose final grid was compared.",
        "samples": samples or [{"case": cases[0]}],
        "details": info,
    }
    return rep.finish(
        "exploration", coverage,
        assumptions=[
            f"positions compared to {RS.POS_TOL} m and derived fields to {RS.REL_TOL} "
            "relative (of the field's maximum); not bit equality, because every regrid "
            "re-refines all points and integrate+newton nudges converged points by ~1e-9 m",
            "circular (target-less) meshes are outside the property's quantifier and are "
            "not used",
            "the GUI itself is not run; its call protocol is reproduced",
        ],
        extra={"components": {
            "real": ["TokamakEquilibrium, BoutMesh, Mesh.redistributePoints, calculateRZ, "
                     "geometry, writeGridfile"],
            "stub": ["func_timeout thread (inline or simulated clock)", "uuid/date/git",
                     "multiprocessing (procsim) for np=2 histories"]}},
    )
