"""Determinism self-test (DESIGN.md 6.1): a prerequisite for believing any batch.

For each engine a set of run indices is executed (i) twice in one process, (ii) in fresh
interpreters under PYTHONHASHSEED=0 and under another value, (iii) inside pools of 1, 4
and 16 processes, (iv) once from the seed and once from the recorded choice trace.  All
event-log digests for an index must agree; any disagreement is a harness error (exit 2).

    selftest.py [--n 64] [--grid 3]          (also imported by the checks)
"""

import os
import sys

HERE = os.path.dirname(os.path.abspath(__file__))
sys.path.insert(0, HERE)
sys.path.insert(0, os.path.dirname(HERE))

from hsim import batch, core, histsim, syn  # noqa: E402


def _syn_digests(arg):
    seed, lo, hi = arg
    return {i: syn.run_index(seed, i)["event_log_digest"] for i in range(lo, hi)}


def _syn_trace_roundtrip(arg):
    seed, lo, hi = arg
    bad = []
    for i in range(lo, hi):
        r = syn.run_index(seed, i)
        r2 = syn.run_replay(r)
        if r2["event_log_digest"] != r["event_log_digest"]:
            bad.append(i)
    return bad


def syn_selftest(seed, n):
    """Returns a summary dict; raises HarnessError on any divergence."""
    ref = _syn_digests((seed, 0, n))
    again = _syn_digests((seed, 0, n))
    _same("procsim-syn twice in one process", ref, again)
    for nproc in (1, 4, 16):
        chunk = max(1, n // nproc)
        args = [(seed, lo, min(n, lo + chunk)) for lo in range(0, n, chunk)]
        parts = batch.map_chunks(_syn_digests, args, nproc=nproc, limit_s=300)
        merged = {}
        for p in parts:
            merged.update(p)
        _same(f"procsim-syn in a pool of {nproc}", ref, merged)
    for hs in ("0", "424242"):
        r = histsim.child({"kind": "syn_digests", "verif_seed": seed, "lo": 0, "hi": n},
                          {"PYTHONHASHSEED": hs})
        got = {int(k): v for k, v in r.items() if k.isdigit()}
        _same(f"procsim-syn in a fresh interpreter PYTHONHASHSEED={hs}", ref, got)
    bad = _syn_trace_roundtrip((seed, 0, n))
    if bad:
        raise core.HarnessError(f"procsim-syn: replay from the recorded choice trace "
                                f"diverges from the seeded run for indices {bad[:5]}")
    return {"engine": "procsim-syn", "indices": n,
            "variants": ["twice in-process", "pools of 1/4/16",
                         "fresh interpreter PYTHONHASHSEED=0", "PYTHONHASHSEED=424242",
                         "seed vs recorded choice trace"], "ok": True}


def grid_selftest(seed, n):
    """Whole-grid runs on procsim: event-log digest and outcome classes must not depend
    on the interpreter (hash seed) they run in."""
    outs = []
    for hs in ("0", "31337"):
        r = histsim.child({"kind": "grid_digests", "verif_seed": seed, "lo": 0, "hi": n},
                          {"PYTHONHASHSEED": hs}, timeout=1200)
        outs.append({int(k): v for k, v in r.items() if k.isdigit()})
    _same("c13-grid across fresh interpreters", outs[0], outs[1])
    return {"engine": "c13-grid", "indices": n,
            "variants": ["fresh interpreter PYTHONHASHSEED=0", "PYTHONHASHSEED=31337"],
            "ok": True}


def _same(what, a, b):
    if set(a) != set(b):
        raise core.HarnessError(f"determinism self-test ({what}): index sets differ")
    diff = [i for i in sorted(a) if a[i] != b[i]]
    if diff:
        i = diff[0]
        raise core.HarnessError(
            f"determinism self-test ({what}): {len(diff)} of {len(a)} runs diverge, first "
            f"index {i}: {a[i]} vs {b[i]}")


if __name__ == "__main__":
    import argparse

    ap = argparse.ArgumentParser()
    ap.add_argument("--n", type=int, default=64)
    ap.add_argument("--grid", type=int, default=3)
    a = ap.parse_args()
    seed = int(os.environ.get("VERIF_SEED", "0") or 0)
    try:
        print(syn_selftest(seed, a.n))
        if a.grid:
            print(grid_selftest(seed, a.grid))
    except core.HarnessError as e:
        print(f"HARNESS-ERROR: {e}", file=sys.stderr)
        sys.exit(2)
