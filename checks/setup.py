#!/venv/bin/python
"""MANIFEST.setup_cmd: build what the checks need from files on disk only.

* /verif/out (scratch for replay files)
* optional pure-python wheels into /verif/.deps (jsonschema for evidence validation,
  sympy for the TORPEX example) from the offline wheelhouse; failure is not fatal.
"""
import os
import subprocess
import sys

VERIF = os.path.dirname(os.path.dirname(os.path.abspath(__file__)))
os.makedirs(os.path.join(VERIF, "out", "replays"), exist_ok=True)
os.makedirs(os.path.join(VERIF, "evidence"), exist_ok=True)
deps = os.path.join(VERIF, ".deps")
wheels = "/opt/veriftools/wheels"
if os.path.isdir(wheels) and not os.path.isdir(os.path.join(deps, "sympy")):
    r = subprocess.run(
        [sys.executable, "-m", "pip", "install", "--quiet", "--no-index", "--find-links",
         wheels, "--target", deps, "sympy", "mpmath", "jsonschema"],
        capture_output=True, text=True)
    print("optional deps:", "installed" if r.returncode == 0 else
          f"not installed ({r.stderr.strip()[-200:]})")
sys.path.insert(0, VERIF)
import hypnotoad  # noqa: E402

print("hypnotoad from", hypnotoad.__file__)
print("setup ok")
