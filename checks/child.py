#!/venv/bin/python
"""Fresh-interpreter worker for histsim: reads one JSON request on stdin, prints one line
`HSIM-RESULT <json>` on the real stdout."""

import json
import os
import sys
import warnings

os.environ.setdefault("MPLBACKEND", "Agg")
HERE = os.path.dirname(os.path.abspath(__file__))
sys.path.insert(0, os.path.dirname(HERE))


def main():
    req = json.load(sys.stdin)
    out = os.fdopen(os.dup(1), "w")
    from hsim import batch, core, histsim

    warnings.simplefilter("ignore")
    batch.quiet_stdio()
    core.assert_repo_import()
    kind = req["kind"]
    if kind == "probe":
        res = histsim.probe(req["scenario"])
    elif kind == "probe_twice":
        res = {"first": histsim.probe(req["scenario"]),
               "second": histsim.probe(req["scenario"])}
    elif kind == "history":
        res = histsim.run_history(req["ops"], req["probe"])
    elif kind == "roundtrip":
        res = histsim.run_roundtrip(req["case"])
    elif kind == "syn_digests":
        from hsim import syn

        res = {str(i): syn.run_index(req["verif_seed"], i)["event_log_digest"]
               for i in range(req["lo"], req["hi"])}
    elif kind == "syn_real":
        # the same SYN plan on REAL multiprocessing (stub-fidelity cross-check)
        import gc

        from hypnotoad.utils.parallel_map import ParallelMap

        from hsim import syn_tasks

        plan = req["plan"]
        eq = syn_tasks.FakeEquilibrium(plan["eq_tag"])
        pm = ParallelMap(plan["np"], equilibrium=eq)
        verdicts = []
        for ci, call in enumerate(plan["calls"]):
            args_list = [(ci, k, payload, fault) for k, payload, fault in call["tasks"]]
            expected, _ = syn_tasks.serial_reference(eq, ci, call["tasks"], call["scale"])
            try:
                got = pm(syn_tasks.syn_task, args_list, scale=call["scale"])
                verdicts.append(["returned", None, got == expected])
            except BaseException as e:  # noqa: BLE001
                verdicts.append(["raised", type(e).__name__, None])
        del pm
        gc.collect()
        res = {"verdicts": verdicts}
    elif kind == "grid_digests":
        from hsim import engines, scenarios

        res = {}
        for i in range(req["lo"], req["hi"]):
            case = scenarios.c13_grid_case(req["verif_seed"], i, quick=True)
            r = engines.case_c13_grid({"scenario": dict(case["scenario"],
                                                        sched_seed=case["seed"])})
            res[str(i)] = [r["event_log_digest"], r["serial_outcome"], r["parallel_outcome"]]
    else:
        raise SystemExit(f"unknown request {kind}")
    res["pythonhashseed"] = os.environ.get("PYTHONHASHSEED")
    print("HSIM-RESULT " + json.dumps(res, default=str), file=out, flush=True)


if __name__ == "__main__":
    main()
