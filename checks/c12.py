"""C12 - a valid grid or an explicit error; shipped reference inputs generate (faultsim).

Whole generation runs through the public entry points (hypnotoad-geqdsk, hypnotoad-circular,
hypnotoad-torpex, the API path of tokamak_example.py), each under one fault plan; the
outcome is classified RAISED / RETURNED (then the grid must pass validity predicate V) /
HUNG.  Plus every shipped example / reference configuration fault-free.
"""

import collections

from common import Report, say
from hsim import batch, core, faultsim as FS

PER_KIND = {"quick": 3, "thorough": 110}
COMBO_N = {"quick": 28, "thorough": 224}
OUT_ERR_ENUM = {"quick": 10, "thorough": None}  # None = every k


def _case(seed, i):
    kind = FS.KINDS[i % len(FS.KINDS)]
    s = core.run_seed(seed, "c12-fault", i)
    if kind == "opt_combo":
        return FS.combo_case(core.stream(s, "case"), s, i // len(FS.KINDS) + seed)
    case = FS.make_case(core.stream(s, "case"), s, kind=kind)
    if kind == "opt_inconsistent":
        # stratified over the list, so that every size of difference gets its turn
        j = i // len(FS.KINDS)
        pool = FS.OPT_INCONSISTENT
        if case["entry"] == "api-tok":
            case["fault"]["changed"] = dict(pool[(j + 3 * seed) % len(pool)])
    if kind == "opt_unknown":
        # stratified: misspelt names, the other geometry's names, and the latter after a
        # valid run of the other entry point in the same interpreter
        j = i // len(FS.KINDS) + seed
        f = case["fault"]
        f.pop("prelude", None)
        if j % 3:
            pool = FS.OPT_UNKNOWN_OTHER[case["entry"]]
            f["extra"] = dict(pool[(j // 3) % len(pool)])
            f["prelude"] = j % 3 == 1
        else:
            f["extra"] = dict(FS.OPT_UNKNOWN[(j // 3) % len(FS.OPT_UNKNOWN)])
    if kind == "in_corrupt":
        # stratified: every block of the file and every corruption kind gets its turn
        j = i // len(FS.KINDS)
        case["fault"]["block"] = FS.GEQDSK_BLOCKS[(j + seed) % len(FS.GEQDSK_BLOCKS)]
        case["fault"]["what"] = FS.CORRUPTIONS[(j // 2 + seed) % len(FS.CORRUPTIONS)]
    return case


def _fault_job(case):
    return FS.run_case(case)


def _shipped_job(case):
    return FS.run_shipped(case)


def phase_shipped(rep):
    cases = FS.shipped_cases()
    res = batch.map_chunks(_shipped_job, cases, limit_s=1800)
    status = {}
    for c, r in zip(cases, res):
        status[c["id"]] = r.get("status")
        v = None
        if r.get("status") == "not_run":
            say(f"[C12] shipped input {c['id']} not run: {r['reason']}")
            continue
        msg = (r["outcome"][2] or "")
        if c["how"] == "geqdsk-cli":
            # generic reference settings: no geqdsk is shipped with them (the ones in
            # integrated_tests are git-LFS pointers), so only rejection of the option file
            # itself - which no geqdsk can cure - is charged to hypnotoad
            if r["status"] == "refused" and "not used" in msg:
                v = {"class": "SHIPPED_OPTIONS_REJECTED",
                     "detail": f"{c['id']}: {msg}"}
            elif r["status"] == "malformed":
                v = {"class": "MALFORMED_GRID", "detail": f"{c['id']}: {r['problems'][:4]}"}
        elif r["status"] == "refused":
            v = {"class": "SHIPPED_REFUSED",
                 "detail": f"{c['id']} does not generate: {r['outcome'][1]}: {msg}"}
        elif r["status"] == "malformed":
            v = {"class": "MALFORMED_GRID", "detail": f"{c['id']}: {r['problems'][:4]}"}
        if v:
            what = (r.get("problems") or [""])[0].split(" has ")[0] if \
                v["class"] == "MALFORMED_GRID" else ""
            key = f"MALFORMED_GRID:{what}" if v["class"] == "MALFORMED_GRID" else \
                f"{v['class']}:{c['id']}"
            rep.violation(key,
                          {"engine": "c12-shipped", "case": c, "violation": v,
                           "result": r}, text=v["detail"])
    say(f"[C12] shipped configurations: {status}")
    return status


def phase_faults(rep, tier, seed):
    n = PER_KIND[tier] * len(FS.KINDS)
    cases = [_case(seed, i) for i in range(n)]
    # documented options in combination, no fault: every pair of fragments gets its turn
    for j in range(COMBO_N[tier]):
        s_ = core.run_seed(seed, "c12-combo", j)
        cases.append(FS.combo_case(core.stream(s_, "case"), s_, j + seed))
    # the refusal guard of connected double nulls ("second X-point outside the first
    # gridded surface") under each sign / scale option, on every disconnected topology:
    # refused on the unchanged tree within a second; whatever is generated instead is
    # judged by V like everything else
    for gi, geom in enumerate(("udn", "ldn", "udn2")):
        for oi, opt in enumerate(({"reverse_current": True}, {"psi_divide_twopi": True},
                                  {"reverse_Bt": True})):
            s_ = core.run_seed(seed, "c12-guard", gi * 3 + oi)
            case = FS.make_case(core.stream(s_, "case"), s_, kind="opt_combo",
                                entry=("api-tok", "geqdsk")[(gi + oi + seed) % 2], geom=geom)
            case["options"].update({"nx_inter_sep": 0, "nx_sol": 3})
            case["options"].update(opt)
            case["fault"]["combo"] = ["dn_connected", list(opt)[0]]
            cases.append(case)
    # OUT-ERR enumeration: the k-th DataFile call fails, k = 1..K, on two configurations
    enum_cases = []
    for entry, geom in (("circular", None), ("geqdsk", "lsn")):
        base = FS.make_case(core.stream(core.run_seed(seed, "c12-enum", 0), entry), 1,
                            kind="out_err", entry=entry, geom=geom)
        ks = range(1, 161)
        if OUT_ERR_ENUM[tier] is not None:
            step = max(1, 160 // OUT_ERR_ENUM[tier])
            ks = list(range(1, 161, step))
        for k in ks:
            c = dict(base, fault={"k": k, "err": "ENOSPC" if k % 2 else "EIO"})
            enum_cases.append(c)
    torpex = []
    if tier == "thorough":
        for i in range(24):
            s_ = core.run_seed(seed, "c12-torpex", i)
            torpex.append(FS.torpex_case(core.stream(s_, "case"), s_))
    allc = cases + enum_cases + torpex
    res = batch.map_chunks(_fault_job, allc, limit_s=1500)
    table = collections.Counter()
    fired = collections.Counter()
    sigs = set()
    samples = []
    sim_time = 0
    for c, r in zip(allc, res):
        kind = c["kind"]
        oc = r["outcome"][0]
        table[f"{kind}:{oc}"] += 1
        cn = r["counters"]
        if cn.get("in_fault_fired") or cn.get("in_corrupt_fired"):
            fired[kind] += 1
        if cn.get("out_err_fired"):
            fired["out_err"] += 1
        for src in ("buggify", "clock"):
            for k, v in (cn.get(src) or {}).items():
                if isinstance(v, (int, float)) and v:
                    fired[f"{src}.{k}"] += v
        if kind in ("git", "opt_unknown", "opt_invalid", "opt_inconsistent", "envelope",
                    "opt_combo"):
            fired[kind] += 1
        if cn.get("runaway"):
            fired["runaway"] += 1
        sim_time += r.get("sim_time_us") or 0
        sigs.add((kind, c["entry"], c.get("geometry"), oc, r["outcome"][1],
                  core.digest_of(c["fault"], 6)))
        if r["violation"]:
            v = r["violation"]
            what = ""
            if v["class"] == "MALFORMED_GRID":
                what = ":" + (r["problems"] or [""])[0].split(" has ")[0]
            if v["class"] == "BAD_OPTION_ACCEPTED":
                what = ":" + ",".join(sorted((c["fault"].get("extra") or
                                              c["fault"].get("changed") or {}).keys()))
            key = f"MALFORMED_GRID{what}" if v["class"] == "MALFORMED_GRID" else \
                f"{v['class']}:{kind}:{c['entry']}{what}"
            rep.violation(key, r, text=v["detail"])
        elif len(samples) < 3 and kind in ("out_err", "worker", "in_trunc"):
            samples.append({"case": {k: v for k, v in c.items() if k != "options"},
                            "outcome": r["outcome"], "counters": cn})
    say(f"[C12] {len(cases)} fault-plan runs + {len(enum_cases)} OUT-ERR enumeration runs")
    for k in sorted(table):
        say(f"[C12]   {k}: {table[k]}")
    return {"runs": len(allc), "fault_plan_runs": len(cases),
            "out_err_enumeration_runs": len(enum_cases),
            "out_err_enumeration_exhaustive": OUT_ERR_ENUM[tier] is None,
            "outcomes": dict(table), "faults_fired": dict(fired),
            "distinct": len(sigs), "sim_time_s": sim_time / 1e6}, samples


def main(tier, seed):
    core.assert_repo_import()
    rep = Report("C12", tier, seed)
    shipped = rep.phase("shipped", phase_shipped, rep) or {}
    out = rep.phase("faults", phase_faults, rep, tier, seed)
    info, samples = out if out is not None else ({"runs": 0, "distinct": 0}, [])
    coverage = {
        "evaluations": max(1, info["runs"] + len(shipped)),
        "distinct_nontrivial": info["distinct"] + len(shipped),
        "rule": "one evaluation = one whole generation run through a public entry point "
                "under one fault plan (15 kinds: none, input truncation / EIO / missing "
                "file, output write error at the k-th DataFile call, refine-chain "
                "failures, simulated timeout, failure inside a simulated worker, git "
                "subprocess faults, unknown / invalid / inconsistent options, settings "
                "outside the envelope, a damaged geqdsk field, documented options in "
                "combination) or one shipped configuration fault-free. Distinct "
                "non-trivial = distinct (kind, entry point, topology, outcome, exception "
                "type, fault parameters).",
        "samples": samples or [{"shipped": shipped}],
        "shipped": shipped,
        "faults": info,
    }
    return rep.finish(
        "exploration", coverage,
        assumptions=[
            "netCDF output goes through the real library to real files; faults are "
            "injected at the DataFile method boundary",
            "input files are served by an in-memory file object injected as the scripts' "
            "module-level open; geqdsk inputs are synthesised with the repository's writer",
            "for truncated inputs the property demands only raise-or-valid",
            "the root geqdsk_*.yaml are generic settings shipped without a geqdsk: only "
            "rejection of the option file itself is charged to hypnotoad",
        ],
        extra={"components": {
            "real": ["hypnotoad-geqdsk / hypnotoad-circular / hypnotoad-torpex main(), "
                     "tokamak_example.py API path, geqdsk reader, YAML loader, optionsfactory "
                     "checks, BoutMesh.writeGridfile, boututils.DataFile + netCDF4"],
            "stub": ["file objects for inputs (SimOpen)", "DataFile proxy (fault injection "
                     "only, delegates to the real class)", "func_timeout thread (inline / "
                     "simulated clock)", "multiprocessing (procsim) for worker faults",
                     "git subprocesses, uuid, date"]}},
    )
