"""C13 - parallel execution is observationally equivalent to serial execution.

Level A: the real ParallelMap/worker_run on procsim, synthetic tasks, seeded schedules
and fault plans (volume).  Level B: whole grids on procsim versus the serial grid
(see c13_grid.py).
"""

import collections
import time

import numpy as np

from common import Report, say
from hsim import batch, core, syn

SIZES = {"quick": 20000, "thorough": 2000000}
CHUNK = {"quick": 500, "thorough": 5000}


def _syn_chunk(arg):
    verif_seed, lo, hi = arg
    agg = {
        "n": 0, "classes": collections.Counter(), "faults": collections.Counter(),
        "outcomes": collections.Counter(), "stats": collections.Counter(),
        "sigs": set(), "viol": {}, "sim_time_us": 0, "steps": 0,
        "max_budget_frac": 0.0, "post_failure_raise": 0, "type_preserved": 0,
        "type_changed": 0, "calls": 0, "post_failure_calls": 0, "samples": [],
        "nontrivial": 0, "np": collections.Counter(),
    }
    for i in range(lo, hi):
        r = syn.run_index(verif_seed, i)
        agg["n"] += 1
        agg["np"][r["plan"]["np"]] += 1
        agg["sim_time_us"] += r["sim_time_us"]
        agg["steps"] += r["steps"]
        for k, v in r["stats"].items():
            agg["stats"][k] += v
        executed = {v["call"] for v in r["verdicts"]}
        for ci, call in enumerate(r["plan"]["calls"]):
            if ci in executed:
                for t in call["tasks"]:
                    if t[2] != "ok":
                        agg["faults"][t[2]] += 1
        for v in r["verdicts"]:
            agg["calls"] += 1
            agg["outcomes"][f"{v['expect']}->{v['outcome']}"] += 1
            if v["after_failure"]:
                agg["post_failure_calls"] += 1
            if v.get("post_failure_raise"):
                agg["post_failure_raise"] += 1
            if "type_preserved" in v:
                agg["type_preserved" if v["type_preserved"] else "type_changed"] += 1
            if v["outcome"] == "returned" and v["expect"] == "return":
                frac = v["steps"] / syn.call_budget(v["n"], r["plan"]["np"])
                agg["max_budget_frac"] = max(agg["max_budget_frac"], frac)
        if r["nontrivial"]:
            agg["nontrivial"] += 1
            agg["sigs"].add(int(r["signature"], 16))
        if r["violation"]:
            cls = r["violation"]["class"]
            agg["classes"][cls] += 1
            if cls not in agg["viol"]:
                agg["viol"][cls] = r
        elif len(agg["samples"]) < 1 and r["nontrivial"]:
            agg["samples"].append({k: r[k] for k in
                                   ("engine", "verif_seed", "run_index", "plan", "choices",
                                    "verdicts", "event_log_digest")})
    agg["sigs"] = np.array(sorted(agg["sigs"]), dtype=np.uint64)
    return agg


def level_a(rep, tier, seed, n=None):
    n = n or SIZES[tier]
    chunk = CHUNK[tier]
    t0 = time.time()
    args = [(seed, lo, min(n, lo + chunk)) for lo in range(0, n, chunk)]
    parts = batch.map_chunks(_syn_chunk, args, limit_s=600)
    tot = collections.defaultdict(collections.Counter)
    scal = collections.Counter()
    sigs = []
    viol = {}
    samples = []
    max_frac = 0.0
    for p in parts:
        for k in ("classes", "faults", "outcomes", "stats", "np"):
            tot[k].update(p[k])
        for k in ("n", "sim_time_us", "steps", "post_failure_raise", "type_preserved",
                  "type_changed", "calls", "post_failure_calls", "nontrivial"):
            scal[k] += p[k]
        sigs.append(p["sigs"])
        max_frac = max(max_frac, p["max_budget_frac"])
        for cls, r in p["viol"].items():
            viol.setdefault(cls, r)
        if len(samples) < 3:
            samples.extend(p["samples"][: 3 - len(samples)])
    distinct = int(len(np.unique(np.concatenate(sigs)))) if sigs else 0
    wall = time.time() - t0
    say(f"[C13/A] {scal['n']} SYN runs in {wall:.1f}s; classes={dict(tot['classes'])}; "
        f"distinct signatures={distinct}; outcomes={dict(tot['outcomes'])}")
    # minimise and report one violation per class
    for cls, r in sorted(viol.items()):
        m = syn.minimise(r)
        chk = syn.run_replay(m)
        if (chk["violation"] or {}).get("class") != cls or \
                chk["event_log_digest"] != m["event_log_digest"]:
            say(f"[C13/A] harness defect: minimised replay of {cls} did not reproduce; "
                "reporting the unminimised run")
            m = r
        m["verif_seed"] = r["verif_seed"]
        m["run_index"] = r["run_index"]
        fault_kinds = sorted({t[2] for c in m["plan"]["calls"] for t in c["tasks"]
                              if t[2] != "ok"})
        key = f"SYN:{cls}:faults={','.join(fault_kinds) or 'none'}"
        rep.violation(key, m, text=m["violation"]["detail"])
    info = {
        "runs": scal["n"],
        "runs_per_hour": int(scal["n"] / max(wall, 1e-9) * 3600),
        "sim_time_s": scal["sim_time_us"] / 1e6,
        "scheduler_steps": scal["steps"],
        "faults_fired": dict(tot["faults"]),
        "sim_stats": dict(tot["stats"]),
        "outcomes": dict(tot["outcomes"]),
        "violation_classes": dict(tot["classes"]),
        "np_histogram": {str(k): v for k, v in sorted(tot["np"].items())},
        "calls": scal["calls"],
        "post_failure_calls": scal["post_failure_calls"],
        "post_failure_raise": scal["post_failure_raise"],
        "exception_type_preserved": scal["type_preserved"],
        "exception_type_changed": scal["type_changed"],
        "max_fraction_of_liveness_budget": round(max_frac, 4),
        "distinct_signatures": distinct,
        "nontrivial_runs": scal["nontrivial"],
    }
    return info, samples


FIDELITY = {"quick": 4, "thorough": 32}


def _fidelity_job(arg):
    """One SYN plan on procsim and on real multiprocessing (fresh interpreter, 90 s
    limit): outcome classes per call must agree.  Informational: never the deciding step."""
    import subprocess

    from hsim import histsim

    seed, i = arg
    r = syn.run_index(seed, i)
    sim = [[v["outcome"], v["detail"] if v["outcome"] == "raised" else None]
           for v in r["verdicts"]]
    try:
        real = histsim.child({"kind": "syn_real", "plan": r["plan"]}, {}, timeout=90)
        real_v = [[v[0], v[1]] for v in real["verdicts"]]
        wrong = any(v[0] == "returned" and v[2] is False for v in real["verdicts"])
    except subprocess.TimeoutExpired:
        real_v, wrong = [["hung", None]], False
    return {"index": i, "procsim": sim, "real": real_v, "real_wrong_list": wrong,
            "agree": sim == real_v and not wrong}


def stub_fidelity(tier, seed):
    n = FIDELITY[tier]
    # plans with a failing task first: that is where a stub could be unfaithful
    idx = []
    i = 0
    while len(idx) < n and i < 50 * n:
        plan = syn.make_plan(core.stream(core.run_seed(seed, syn.ENGINE, i), "workload"))
        faulty = any(t[2] != "ok" for c in plan["calls"] for t in c["tasks"])
        ntasks = sum(len(c["tasks"]) for c in plan["calls"])
        # (the real-multiprocessing runner drives one map; two-map plans are left out)
        if ntasks <= 30 and not plan.get("second") and (faulty or len(idx) % 3 == 0):
            idx.append(i)
        i += 1
    res = batch.map_chunks(_fidelity_job, [(seed, i) for i in idx], nproc=4, limit_s=300)
    agree = sum(1 for r in res if r["agree"])
    say(f"[C13] stub fidelity: {agree}/{len(res)} SYN scenarios give the same outcome "
        "classes on real multiprocessing and on procsim")
    return {"scenarios": len(res), "agree": agree,
            "disagreements": [r for r in res if not r["agree"]][:5]}


GRID_CASES = {"quick": 12, "thorough": 160}
GRID_SCHEDULES = {"quick": 3, "thorough": 6}


def _grid_job(arg):
    """One configuration + fault plan: the serial reference once, then several seeded
    schedules of the simulated-parallel run, each compared with the reference."""
    import os
    import shutil
    import warnings

    from hsim import engines, gridsim, scenarios

    warnings.simplefilter("ignore")
    verif_seed, index, nsched, quick = arg
    case = scenarios.c13_grid_case(verif_seed, index, quick=quick)
    sc = case["scenario"]
    d = engines.scratch_dir()
    out = []
    try:
        ref_path = os.path.join(d, "serial.nc")
        ref = gridsim.run(engines.serial_variant(sc), ref_path)
        for k in range(nsched):
            s = dict(sc, sched_seed=case["seed"] * 16 + k)
            if k > 0:
                s["np"] = 2 + (k + sc["np"]) % 3
            if k % 2 == 1:
                s["pipe_capacity"] = 4096  # smaller than one pickled contour
            r = engines.case_c13_grid({"scenario": s}, ref_path=ref_path, ref_res=ref)
            r["index"] = index
            out.append(r)
    finally:
        shutil.rmtree(d, ignore_errors=True)
    return out


def level_b(rep, tier, seed):
    t0 = time.time()
    n = GRID_CASES[tier]
    args = [(seed, i, GRID_SCHEDULES[tier], tier == "quick") for i in range(n)]
    res = batch.map_chunks(_grid_job, args, limit_s=6000)
    runs = [r for job in res for r in job]
    cnt = collections.Counter()
    probes = collections.Counter()
    sigs = set()
    sim_time = 0
    samples = []
    for r in runs:
        sc = r["scenario"]
        fam = sc["family"] + ("" if sc["family"] != "tok" else ":" + sc["geometry"])
        cnt[f"{fam}|{sc['fault_kind']}|serial={r['serial_outcome'][0]}"
            f"|par={r['parallel_outcome'][0]}"] += 1
        sim_time += r["sim_time_us"] or 0
        if r["signature"]:
            sigs.add(r["signature"])
        for src in ("buggify", "clock"):
            for k, v in (r.get(src) or {}).items():
                if isinstance(v, (int, float)):
                    probes[f"{src}.{k}"] += v
        if r["parallel_outcome"][0] == "raised" and r["serial_outcome"][0] == "raised":
            probes["both_raised"] += 1
        if r["violation"]:
            key = (f"GRID:{r['violation']['class']}:{fam}:fault={sc['fault_kind']}")
            rep.violation(key, r, text=r["violation"]["detail"])
        elif len(samples) < 2:
            samples.append({"scenario": {k: v for k, v in sc.items() if k != "choices"},
                            "serial_outcome": r["serial_outcome"],
                            "parallel_outcome": r["parallel_outcome"],
                            "scheduler_steps": r["steps"]})
    wall = time.time() - t0
    say(f"[C13/B] {len(runs)} whole-grid runs ({n} configurations) in {wall:.1f}s; "
        f"distinct schedules={len(sigs)}")
    for k in sorted(cnt):
        say(f"[C13/B]   {k}: {cnt[k]}")
    info = {"runs": len(runs), "configurations": n, "outcomes": dict(cnt),
            "distinct_signatures": len(sigs), "sim_time_s": sim_time / 1e6,
            "probes": {k: round(v, 3) for k, v in probes.items()},
            "runs_per_hour": int(len(runs) / max(wall, 1e-9) * 3600)}
    return info, samples


def main(tier, seed):
    core.assert_repo_import()
    rep = Report("C13", tier, seed)
    # determinism first: a divergence is a harness error (exit 2), nothing is believed
    import selftest

    det = [selftest.syn_selftest(seed, 64 if tier == "quick" else 2048),
           selftest.grid_selftest(seed, 2 if tier == "quick" else 8)]
    say(f"[C13] determinism self-test ok: {[(d['engine'], d['indices']) for d in det]}")
    info_a, samples = level_a(rep, tier, seed)
    info_b, samples_b = rep.phase("level_B", level_b, rep, tier, seed) or (
        {"runs": 0, "distinct_signatures": 0, "aborted": True}, [])
    samples = samples[:2] + samples_b
    fidelity = rep.phase("stub_fidelity", stub_fidelity, tier, seed)
    coverage = {
        "evaluations": info_a["runs"] + info_b["runs"],
        "distinct_nontrivial": info_a["distinct_signatures"] + info_b["distinct_signatures"],
        "rule": "one evaluation = one simulated run of the real ParallelMap on procsim "
                "(1-4 calls, 0-40 tasks of equal or unequal size, 2-6 workers, seeded delays "
                "and fault plan; three plans in ten create a second map for another "
                "equilibrium while the first is alive or after it was deleted, with the "
                "allocator simulated so that a dead object's identity is reused). "
                "Non-trivial = at least two results crossed the result queue; distinct = "
                "distinct (task->worker assignment, completion order) signature over all "
                "calls of the run. Level B adds whole-grid runs (real mesh generation with "
                "np 2-4 on procsim, optional content-addressed refine failures/timeouts) "
                "each compared bit for bit with the serial grid of the same inputs; "
                "distinct there = distinct signature over every queue message of the build.",
        "samples": samples,
        "level_A": info_a,
        "level_B": info_b,
    }
    return rep.finish(
        "exploration", coverage,
        assumptions=[
            "multiprocessing is a stub (procsim): per-process copies of module/class state "
            "are modelled for whole-grid runs only; pipe capacity and reader-lock poisoning "
            "are modelled; signals other than terminate() and fork failure are not",
            "worker SIGKILL is outside the statement and not injected",
            "a clean batch is evidence about the sampled schedules and fault plans only",
        ],
        extra={"determinism_selftest": det, "stub_fidelity": fidelity, "components": {
            "real": ["hypnotoad.utils.parallel_map.ParallelMap (__init__, __call__, "
                     "worker_run, __del__)", "dill", "multiprocessing.reduction.ForkingPickler"],
            "stub": ["multiprocessing.Queue", "multiprocessing.Process", "task functions "
                     "(synthetic, level A only; level B runs the real mesh tasks)",
                     "func_timeout thread+clock (inline / simulated clock)", "uuid/date/git",
                     "id() as seen by hypnotoad's modules (faults.AddressSim)"]}},
    )
