#!/venv/bin/python
"""Entry point for every check.

    run.py --property C13 --tier quick|thorough
    run.py --replay <file>

Exit codes: 0 = held on everything explored, 1 = violation (a line
`VIOLATION property=<id> replay=<path>` was printed), 2 = harness error.
Run as a script (not with -m) so that no module is imported twice.
"""

import argparse
import importlib
import os
import sys
import traceback
import warnings

warnings.simplefilter("ignore")

os.environ.setdefault("MPLBACKEND", "Agg")
os.environ.setdefault("PYTHONWARNINGS", "ignore")
os.environ.setdefault("OMP_NUM_THREADS", "1")
os.environ.setdefault("OPENBLAS_NUM_THREADS", "1")

HERE = os.path.dirname(os.path.abspath(__file__))
sys.path.insert(0, HERE)
sys.path.insert(0, os.path.dirname(HERE))

MODULES = {"C01": "c01", "C12": "c12", "C13": "c13", "C14": "c14", "C15": "c15"}


def main():
    ap = argparse.ArgumentParser()
    ap.add_argument("--property")
    ap.add_argument("--tier", default=os.environ.get("VERIF_TIER", "quick"),
                    choices=("quick", "thorough"))
    ap.add_argument("--replay")
    a = ap.parse_args()
    seed = int(os.environ.get("VERIF_SEED", "0") or 0)
    from hsim.core import HarnessError

    try:
        if a.replay:
            import replay

            return replay.main(a.replay)
        if a.property not in MODULES:
            print(f"unknown or unclaimed property {a.property}", file=sys.stderr)
            return 2
        mod = importlib.import_module(MODULES[a.property])
        return mod.main(a.tier, seed)
    except HarnessError as e:
        print(f"HARNESS-ERROR: {e}", file=sys.stderr, flush=True)
        return 2
    except Exception:  # noqa: BLE001
        traceback.print_exc()
        print("HARNESS-ERROR: unexpected exception in the checking machinery",
              file=sys.stderr, flush=True)
        return 2


if __name__ == "__main__":
    sys.exit(main())
