"""Shared reporting for the checks: VIOLATION / KNOWN-FINDING lines, replay files,
evidence, exit codes (0 held, 1 violation, 2 harness error)."""

import os
import sys
import time

HERE = os.path.dirname(os.path.abspath(__file__))
VERIF = os.path.dirname(HERE)
if VERIF not in sys.path:
    sys.path.insert(0, VERIF)

from hsim import batch, core, evidence  # noqa: E402


_OUT = os.fdopen(os.dup(1), "w")  # survives batch.quiet_stdio() in this process


def say(*a):
    print(*a, file=_OUT, flush=True)


class Report:
    def __init__(self, prop, tier, seed):
        self.prop = prop
        self.tier = tier
        self.seed = seed
        self.t0 = time.time()
        batch.quiet_stdio()  # hypnotoad prints copiously; `say` keeps the real stdout
        self.findings = evidence.Findings()
        self.violations = {}  # key -> replay path
        self.known = {}
        self.harness_errors = []
        self.repo = core.repo_state()
        say(f"[{prop}] tier={tier} VERIF_SEED={seed} repo_head={self.repo['repo_head'][:10]} "
            f"tree={self.repo['tree_digest']}")

    def violation(self, key, record, text=None):
        """Register one violation.  `key` identifies the failing input / call site /
        history (what known_findings.json lists); `record` is the replay record."""
        if key in self.violations or key in self.known:
            return
        record = dict(record)
        record["property"] = self.prop
        record["finding_key"] = key
        record.update(self.repo)
        record.pop("log", None)
        f = self.findings.match(self.prop, key)
        path = core.write_replay(record)
        if f is not None:
            self.known[key] = path
            say(f"KNOWN-FINDING: property={self.prop} {f['text']}")
        else:
            self.violations[key] = path
            if text:
                say(f"[{self.prop}] violation {key}: {text}")
            say(f"VIOLATION property={self.prop} replay={path}")

    def phase(self, name, fn, *a, **kw):
        """Run one phase of a check.  A harness error in a phase does not mask
        violations that were already reported: it is recorded, and the final exit code is
        1 if there are violations, 2 otherwise."""
        try:
            return fn(*a, **kw)
        except core.HarnessError as e:
            self.harness_errors.append(f"{name}: {e}")
            say(f"[{self.prop}] HARNESS-ERROR in phase {name}: {e}")
            return None

    def finish(self, level, coverage, assumptions, extra=None):
        wall = time.time() - self.t0
        extra = dict(extra or {})
        if self.harness_errors:
            extra["harness_errors"] = self.harness_errors
        extra.setdefault("runs_per_hour",
                         int(coverage.get("evaluations", 0) / max(wall, 1e-9) * 3600))
        extra.setdefault("seeds", {"VERIF_SEED": self.seed,
                                   "derivation": "run i of engine E uses blake2b("
                                                 "f'{VERIF_SEED}/{E}/{i}'); indices 0..n-1"})
        extra["known_findings_reported"] = sorted(self.known)
        extra["violation_keys"] = sorted(self.violations)
        extra.update(self.repo)
        try:
            path = evidence.write(self.prop, self.tier, self.seed, level, coverage, wall,
                                  len(self.violations), assumptions, extra)
        except core.HarnessError as e:
            # e.g. so many violations that fewer than two distinct cases were compared:
            # an evidence file that does not validate must never mask the violations
            if not self.violations:
                raise
            say(f"[{self.prop}] evidence not valid ({e}); violations stand")
            path = "(invalid)"
        say(f"[{self.prop}] evidence -> {path}  wall={wall:.1f}s "
            f"violations={len(self.violations)} known={len(self.known)}")
        if self.violations:
            return 1
        return 2 if self.harness_errors else 0
