"""C01 - every grid point lies on its flux surface (scoped: along the dimensions this
technique owns).

For a fixed small set of workload families, every grid produced under any explored worker
schedule (S1), any explored pattern of refine-method failures short of exhaustion and any
randomised retry/tuning knobs (S3), and after any explored regrid history (S4) has all its
points on their surfaces (oracle O-psi, evaluated with the mesh's own interpolant at the
positions read back from the grid file).
"""

import collections

from common import Report, say
from hsim import batch, core, faultsim as FS, regridsim as RS

SIZES = {"quick": (26, 6), "thorough": (520, 90)}
CIRC_TAILS = {"quick": 8, "thorough": 120}

METHOD_SETS = (
    ["integrate+newton", "integrate"], ["newton", "integrate+newton", "integrate"],
    ["integrate+newton"], ["newton", "line"], ["line"], ["newton", "integrate"],
    ["integrate+newton", "line", "integrate"],
)


def _grid_case(seed, i):
    s = core.run_seed(seed, "c01-grid", i)
    rng = core.stream(s, "case")
    kind = ("none", "refine", "worker", "none", "worker")[i % 5]
    entry = ("api-tok", "api-circ", "geqdsk", "circular")[i % 4]
    case = FS.make_case(rng, s, kind=kind, entry=entry)
    f = case["fault"]
    if kind in ("refine", "worker"):
        # failures short of exhaustion: Newton gives way, the chain carries on
        f["buggify"] = {"mode": "content", "key": s,
                        "arm": {"newton": rng.choice((0.02, 0.3, 1.0))}}
        f["clock"] = None
        f["sub"] = "fallback"
        case["options"].pop("refine_timeout", None)
        if kind == "worker":
            case["np"] = rng.choice((2, 3, 4))
            if rng.random() < 0.4:
                f["buggify"] = None  # schedules only
    o = case["options"]
    # swarm: tuning knobs of the retry chains
    o["refine_methods"] = list(rng.choice(METHOD_SETS))
    if f.get("buggify") and "integrate" not in o["refine_methods"] \
            and "line" not in o["refine_methods"]:
        o["refine_methods"].append("integrate")
    o["finecontour_Nfine"] = rng.choice((20, 30, 40, 60, 100))
    if rng.random() < 0.4:
        o["refine_width"] = rng.choice((1e-5, 1e-4, 1e-3))
    if rng.random() < 0.3:
        o["finecontour_maxits"] = rng.choice((20, 200))
    if rng.random() < 0.3:
        o["finecontour_overdamping_factor"] = rng.choice((0.5, 0.8, 1.0))
    if rng.random() < 0.3:
        o["follow_perpendicular_rtol"] = rng.choice((2e-8, 1e-6))
        o["follow_perpendicular_atol"] = rng.choice((1e-8, 1e-6))
    if i % 10 == 2:
        # stratum: the other interpolant with worker processes (the double nulls of this
        # workload are refused with dct, so use a single null)
        case = FS.make_case(rng, s, kind="worker", entry=("api-tok", "geqdsk")[(i // 10) % 2],
                            geom=("lsn", "usn")[(i // 20) % 2])
        case["fault"].update({"buggify": None, "clock": None, "sub": "fallback"})
        case["np"] = 2 + (i // 10) % 3
        case["options"].pop("refine_timeout", None)
        o = case["options"]
        o["refine_methods"] = ["integrate+newton", "integrate"]
        o["psi_interpolation_method"] = "dct"
    elif case["geometry"] in ("lsn", "usn") and rng.random() < 0.25:
        o["psi_interpolation_method"] = "dct"
    if case["geometry"] in ("cdn", "udn", "ldn") and rng.random() < 0.35:
        o["orthogonal"] = False
    if entry in ("circular", "api-circ") and rng.random() < 0.35:
        o.update({"orthogonal": False, "ny": rng.choice((6, 8)),
                  "nonorthogonal_spacing_method": "poloidal_orthogonal_combined",
                  "nonorthogonal_xpoint_poloidal_spacing_length": rng.choice((0.8, 1.0)),
                  "nonorthogonal_xpoint_poloidal_spacing_range": 0.05})
        o.pop("curvature_type", None)
    if i % 13 == 8:
        # stratum: the situation in which a fall-back method has the most to correct - a
        # coarse FineContour (large interpolation error in regridded points) with Newton
        # failing, so that the last method of the default chain produces the points
        rng2 = core.stream(s, "coarse")
        case = FS.make_case(rng2, s, kind="refine", entry=("api-circ", "circular")[i % 2])
        case["fault"].update({"buggify": {"mode": "content", "key": s,
                                          "arm": {"newton": rng2.choice((0.3, 1.0))}},
                              "clock": None, "sub": "fallback"})
        case["options"].update({
            "orthogonal": False, "ny": 8, "finecontour_Nfine": 20,
            "nonorthogonal_spacing_method": "poloidal_orthogonal_combined",
            "nonorthogonal_xpoint_poloidal_spacing_length": rng2.choice((0.8, 1.0)),
            "nonorthogonal_xpoint_poloidal_spacing_range": 0.05,
            "refine_methods": ["integrate+newton", "integrate"]})
        case["options"].pop("curvature_type", None)
        case["options"].pop("refine_timeout", None)
    if i % 13 == 5:
        # stratum: walled non-orthogonal single null with worker processes and no
        # faults - the contours extended to the wall have unequal numbers of points, the
        # one parallel map whose tasks differ in size
        rng3 = core.stream(s, "ragged")
        case = FS.make_case(rng3, s, kind="worker", entry=("api-tok", "geqdsk")[(i // 13) % 2],
                            geom=("lsn", "usn")[(i // 26) % 2])
        case["fault"].update({"buggify": None, "clock": None, "sub": "fallback"})
        case["np"] = 2 + (i // 13) % 3
        o = case["options"]
        o.pop("refine_timeout", None)
        o["orthogonal"] = False
        # the example's orthogonal spacings are refused for non-orthogonal single nulls
        o.pop("target_all_poloidal_spacing_length", None)
        o.pop("xpoint_poloidal_spacing_length", None)
        o["y_boundary_guards"] = (i // 13) % 2
    if i % 13 == 11:
        # stratum: a slightly disconnected double null gridded as a connected one (the
        # default nx_inter_sep = 0): every region shares one radial psi grid although the
        # two separatrices differ; no faults, with and without workers
        rng4 = core.stream(s, "dn-connected")
        case = FS.make_case(rng4, s, kind="worker" if (i // 13) % 2 else "none",
                            entry=("api-tok", "geqdsk")[(i // 26) % 2],
                            geom=("udn", "ldn", "udn2")[(i // 13) % 3])
        case["fault"].update({"buggify": None, "clock": None, "sub": "fallback"})
        if case["kind"] == "worker":
            case["np"] = 2 + (i // 13) % 2
        case["options"].pop("refine_timeout", None)
        case["options"].update({"nx_inter_sep": 0, "nx_sol": rng4.choice((1, 2)),
                                "psinorm_sol": rng4.choice((1.2, 1.4))})
    case["check_psi"] = True
    return case


def _regrid_case(seed, i):
    s = core.run_seed(seed, "c01-regrid", i)
    case = RS.make_case(core.stream(s, "case"), geoms=("lsn", "cdn", "usn", "ldn", "udn"),
                        np_choices=(1, 1, 2))
    if i % 3 == 1:
        # stratum: the history ends with a regrid that raises half-way (some contours
        # already moved, none refined yet) and the grid is written all the same
        rng2 = core.stream(s, "tail")
        pool = RS.settings_pool(case["workload"]["geometry"])
        bad = dict(rng2.choice(pool))
        op = {"op": "regrid", "s": bad, "tag": "outside"}
        if (i // 3) % 2:
            bad.update(rng2.choice(RS.OUTSIDE))
        else:
            op["refuse_at"] = rng2.choice((2, 3, 4, 6, 9, 13, 20, 30))
        case["ops"] += [op, {"op": "write"}]
    case["check_psi"] = True
    case["sched_seed"] = s % 10**9
    return case


def _grid_job(case):
    return FS.run_case(case)


def _regrid_job(case):
    if case["workload"]["geometry"] == "circ":
        return RS.run_circ_tail(case)
    return RS.run_case(case)


def _circ_tail_case(seed, i):
    s = core.run_seed(seed, "c01-circ-tail", i)
    return RS.make_circ_tail_case(core.stream(s, "case"))


def main(tier, seed):
    core.assert_repo_import()
    rep = Report("C01", tier, seed)
    ng, nr = SIZES[tier]
    gcases = [_grid_case(seed, i) for i in range(ng)]
    rcases = [_regrid_case(seed, i) for i in range(nr)]
    # circular regrid tails: cheap, and the topology in which a regrid is refused in the
    # middle of a region most readily
    rcases += [_circ_tail_case(seed, i) for i in range(CIRC_TAILS[tier])]
    stats = collections.Counter()
    fired = collections.Counter()
    sigs = set()
    samples = []
    worst = 0.0
    points = 0

    def phase_grids():
        nonlocal worst, points
        res = batch.map_chunks(_grid_job, gcases, limit_s=1500)
        for c, r in zip(gcases, res):
            psi = r.get("psi")
            stats[f"grid:{c['kind']}:{r['outcome'][0]}"] += 1
            bc = r["counters"].get("buggify") or {}
            for k, v in (bc.get("fired") or {}).items():
                fired[f"armed_{k}_failures"] += v
            for k, v in (bc.get("natural_fail") or {}).items():
                fired[f"natural_{k}_failures"] += v
            fired["fallback_taken"] += bc.get("fallback_taken", 0)
            if psi:
                stats["grids_evaluated"] += 1
                worst = max(worst, psi["max_resid"], psi["max_resid_vs_psixy"])
                points += psi["points"]
                fired["pinned_corners_excluded"] += psi["pinned_corners"]
                sigs.add((c["entry"], c.get("geometry"), c["np"], c["kind"],
                          tuple(c["options"].get("refine_methods", ())),
                          c["options"].get("orthogonal", True), psi["tau_factor"]))
                if len(samples) < 2:
                    samples.append({"case": {k: v for k, v in c.items() if k != "choices"},
                                    "max_resid_over_tau": psi["max_resid"],
                                    "points": psi["points"]})
            if r["violation"]:
                v = r["violation"]
                rep.violation(f"{v['class']}:{c['kind']}:{c['entry']}:{c.get('geometry')}",
                              r, text=v["detail"])
        return True

    def phase_regrids():
        nonlocal worst, points
        res = batch.map_chunks(_regrid_job, rcases, limit_s=2400)
        for c, r in zip(rcases, res):
            stats[f"regrid:{r['status']}"] += 1
            psi = r.get("psi")
            if psi:
                stats["grids_evaluated"] += 1
                stats["regrid_histories_evaluated"] += 1
                worst = max(worst, psi["max_resid"], psi["max_resid_vs_psixy"])
                points += psi["points"]
                if c["workload"]["geometry"] == "circ":
                    sigs.add(("circ-tail", tuple(o[1] for o in r["outcomes"])))
                    fired["write_after_failed_regrid_judged"] += \
                        r["probes"].get("write_after_failed_regrid_judged", 0)
                else:
                    sigs.add(("regrid",) + RS.shape_of(c))
                    fired["write_after_failed_regrid_judged"] += \
                        (r.get("probes") or {}).get("write_after_failed_regrid_judged", 0)
                if psi["violations"]:
                    rep.violation(f"OFF_SURFACE:regrid:{c['workload']['geometry']}",
                                  dict(r, violation={"class": "OFF_SURFACE",
                                                     "detail": psi["violations"][0]}),
                                  text=psi["violations"][0])
            elif r["violation"] and r["violation"]["class"].startswith("HUNG"):
                rep.violation(f"{r['violation']['class']}:regrid", r,
                              text=r["violation"]["detail"])
        return True

    rep.phase("grids", phase_grids)
    rep.phase("regrids", phase_regrids)
    say(f"[C01] {stats['grids_evaluated']} grids evaluated ({points} points), "
        f"max residual / tolerance = {worst:.3e}; {dict(stats)}")
    coverage = {
        "evaluations": max(1, ng + nr),
        "distinct_nontrivial": len(sigs),
        "rule": "one evaluation = one whole generation (or one regrid history) under a "
                "seeded worker schedule, refine-method failure pattern short of exhaustion "
                "and randomised retry/tuning knobs; every grid file that gets written - in "
                "a regrid history also the ones written after a regrid that raised "
                "half-way, naturally or through faults.RegridRefusal - is judged by "
                "O-psi at all four staggered locations. Distinct non-trivial = distinct "
                "(entry point, topology, np, fault kind, refine_methods, orthogonality) or "
                "distinct regrid-history shapes among grids that were evaluated.",
        "samples": samples or [{"case": gcases[0]}],
        "grids_evaluated": stats["grids_evaluated"],
        "points_checked": points,
        "max_residual_over_tolerance": worst,
        "outcomes": dict(stats),
        "faults_fired": dict(fired),
    }
    return rep.finish(
        "exploration", coverage,
        assumptions=[
            "scope: decides C01 along schedules, refine fall-back patterns, tuning knobs and "
            "regrid histories for a fixed set of synthetic workloads; the quantifier over "
            "all equilibria is an input-space matter outside this technique",
            "tolerance 10*refine_atol*max(1,|psi|), 100x wider when bare 'integrate' "
            "(documented as not respecting atol) produced points",
            "refine method 'none' and follow_perpendicular_recover=True are explicit user "
            "opt-outs of the property and are never drawn",
        ],
        extra={"components": {
            "real": ["whole generation through hypnotoad-geqdsk / hypnotoad-circular / API, "
                     "Mesh.redistributePoints, the mesh's own psi interpolant"],
            "stub": ["multiprocessing (procsim)", "refine methods wrapped by buggify (raise "
                     "SolutionError or delegate)", "func_timeout thread (inline)",
                     "input file objects, uuid/date/git"]}},
    )
