"""C14 - deterministic, side-effect free, reproducible from embedded inputs (histsim).

(a) same inputs => same numeric arrays in every environment (fresh interpreters under a
    seeded environment matrix, twice in one interpreter, np 2/3 on procsim);
(b) no dependence on interpreter history, caller arrays not modified (seeded histories of
    earlier operations - including failed ones - each in a fresh interpreter);
(c) provenance round trip through the real command-line entry points.
"""

import collections
import time

from common import Report, say
from hsim import batch, core, engines_more, histsim

SIZES = {
    "quick": {"probes": 5, "envs": 4, "histories": 32, "roundtrips": 4, "stalls": 4},
    "thorough": {"probes": 40, "envs": 7, "histories": 1200, "roundtrips": 48, "stalls": 8},
}


def _probes(seed, n):
    return histsim.probe_scenarios(core.stream(core.run_seed(seed, "c14", 0), "probes"), n)


def _envs(seed, n):
    envs = histsim.env_matrix(core.stream(core.run_seed(seed, "c14", 0), "envs"), n - 1)
    envs.append({"HSIM_REAL_ENV": "1", "PYTHONHASHSEED": "31337"})
    return envs


def _env_job(arg):
    kind, scenario, env, cwd = arg
    if kind == "child":
        return histsim.child({"kind": "probe", "scenario": scenario}, env, cwd=cwd)
    if kind == "twice":
        return histsim.child({"kind": "probe_twice", "scenario": scenario}, env)
    # simulated-parallel variant, in this pool process
    import warnings

    warnings.simplefilter("ignore")
    return histsim.probe(scenario)


def phase_a(rep, tier, seed):
    sz = SIZES[tier]
    probes = _probes(seed, sz["probes"])
    envs = _envs(seed, sz["envs"])
    jobs = []
    for pi, sc in enumerate(probes):
        for ei, env in enumerate(envs):
            jobs.append((pi, f"env{ei}", ("child", sc, env, "/" if ei % 2 else None)))
        jobs.append((pi, "twice", ("twice", sc, envs[0], None)))
        for np_ in (2, 3):
            jobs.append((pi, f"np{np_}", ("par", dict(sc, np=np_, sched_seed=pi * 7 + np_),
                                          None, None)))
        # a machine that stalls now and then (simulated clock): whichever refinement pass
        # meets the stall, generation either raises FunctionTimedOut or gives the same grid
        for k in range(sz["stalls"]):
            clock = {"key": seed * 1000 + pi * 13 + k, "slowness": 1.0}
            if k % 4 == 3:
                clock["slow_prob"] = (2e-4, 1e-3)[(pi + k) % 2]
            else:
                clock["stall_at_timeout"] = (2, 3, 5, 7, 10, 14, 19, 25, 32, 40)[
                    (pi * 3 + k + seed) % 10]
            stalled = dict(sc, options=dict(sc["options"], refine_timeout=(1.0, 0.5)[k % 2]),
                           clock=clock)
            jobs.append((pi, f"stall{k}", ("par", stalled, None, None)))
    res = batch.map_chunks(_env_job, [j[2] for j in jobs], limit_s=900)
    by_probe = collections.defaultdict(list)
    variant_sc = {(pi, label): job[1] for pi, label, job in jobs if job[0] == "par"}
    for (pi, label, _), r in zip(jobs, res):
        if label == "twice":
            by_probe[pi].append(("twice-1", r["first"]))
            by_probe[pi].append(("twice-2", r["second"]))
        else:
            by_probe[pi].append((label, r))
    fresh = {}
    n_cmp = 0
    refused = 0
    stall_stats = collections.Counter()
    for pi, items in sorted(by_probe.items()):
        base = dict(items)["env0"]
        fresh[pi] = {"outcome": base["outcome"], "digest": base.get("digest")}
        if base["outcome"] != "returned":
            refused += 1
        for label, r in items:
            n_cmp += 1
            if label.startswith("stall"):
                stall_stats[r["outcome"] + ":" + str(r.get("exc"))] += 1
                if r["outcome"] == "raised" and r.get("exc") == "FunctionTimedOut":
                    continue  # the stall was met and reported: nothing silent
            if (r["outcome"], r.get("digest")) != (base["outcome"], base.get("digest")):
                fam = probes[pi]["family"] + ":" + probes[pi].get("geometry", "")
                ei = int(label[3:]) if label.startswith("env") else None
                rec = {"engine": "c14-env", "probe": probes[pi],
                       "envs": [envs[0], envs[ei]] if ei is not None else [envs[0]],
                       "variant": label, "variant_scenario": variant_sc.get((pi, label)),
                       "violation": {"class": "ENV_DEPENDENCE",
                                     "detail": f"probe {pi} ({fam}) gives {r['outcome']}/"
                                               f"{r.get('digest')} under {label} but "
                                               f"{base['outcome']}/{base.get('digest')} in "
                                               "the baseline environment"}}
                rep.violation(f"ENV:{fam}:{label.rstrip('0123456789-')}", rec,
                              text=rec["violation"]["detail"])
    say(f"[C14/a] {len(probes)} probes x ({len(envs)} environments + twice + np2/np3 + {sz['stalls']} stalls): "
        f"{n_cmp} digests compared, {refused} probes refused")
    return probes, envs, fresh, {"probes": len(probes), "environments": len(envs),
                                 "digests_compared": n_cmp, "probes_refused": refused,
                                 "stalled_machine_variants": dict(stall_stats)}


def _variant(sc, rng):
    """The probe's configuration with a different option set but the same grid size - what
    a user produces when adjusting settings and writing to the same file name again."""
    import copy

    v = copy.deepcopy(sc)
    o = v["options"]
    if v["family"] == "circ":
        if o.get("orthogonal", True):
            o.update({"orthogonal": False, "nonorthogonal_xpoint_poloidal_spacing_length": 1.0,
                      "nonorthogonal_spacing_method": "poloidal_orthogonal_combined",
                      "nonorthogonal_xpoint_poloidal_spacing_range": 0.05})
            o.pop("curvature_type", None)
        else:
            for k in [k for k in o if k.startswith("nonorthogonal_")]:
                o.pop(k)
            o["orthogonal"] = True
    else:
        o["curvature_type"] = "curl(b/B) with x-y derivatives"
        if rng.random() < 0.5:
            v["pressure_off"] = True
    return v


def _hist_case(seed, i, nprobes, probes=None):
    s = core.run_seed(seed, "c14-history", i)
    rng = core.stream(s, "ops")
    case = {"ops": histsim.history_ops(rng, s), "probe_index": rng.randrange(nprobes)}
    if probes is not None and i % 4 == 3:
        # stratum: an earlier generation with other options wrote to the very file the
        # probe is going to write (same name, same size)
        case["ops"].append({"op": "grid", "upto": "write", "to_probe_path": True,
                            "scenario": _variant(probes[case["probe_index"]], rng)})
    return case


def _hist_job(arg):
    ops, probe, env = arg
    return histsim.child({"kind": "history", "ops": ops, "probe": probe}, env)


def phase_b(rep, tier, seed, probes, envs, fresh):
    sz = SIZES[tier]
    cases = [_hist_case(seed, i, len(probes), probes) for i in range(sz["histories"])]
    res = batch.map_chunks(
        _hist_job, [(c["ops"], probes[c["probe_index"]], envs[0]) for c in cases],
        limit_s=1200)
    shapes = set()
    opcount = collections.Counter()
    outcomes = collections.Counter()
    viol = {}
    samples = []
    for i, (c, r) in enumerate(zip(cases, res)):
        shape = tuple(o["op"] for o in c["ops"]) + (c["probe_index"],)
        if c["ops"]:
            shapes.add(shape)
        for o, oc in zip(c["ops"], r["op_outcomes"]):
            opcount[o["op"]] += 1
            outcomes[o["op"] + ":" + ("raised" if "raised" in oc else "returned")] += 1
        v = engines_more.classify_history(r, fresh[c["probe_index"]])
        if v:
            key = v["class"] + (":" + ",".join(v["arrays"]) if "arrays" in v else
                                ":" + probes[c["probe_index"]]["family"])
            viol.setdefault(key, (i, c, v))
        elif len(samples) < 2 and len(c["ops"]) >= 2:
            samples.append({"ops": c["ops"], "probe_index": c["probe_index"],
                            "op_outcomes": r["op_outcomes"],
                            "probe_digest": r["probe"].get("digest")})
    for key, (i, c, v) in sorted(viol.items()):
        ops = _minimise_history(c["ops"], probes[c["probe_index"]], envs[0],
                                fresh[c["probe_index"]], v["class"])
        rec = {"engine": "c14-history", "ops": ops, "probe": probes[c["probe_index"]],
               "fresh": fresh[c["probe_index"]], "violation": v, "verif_seed": seed,
               "run_index": i, "minimised_from_ops": len(c["ops"])}
        rep.violation(key, rec, text=v["detail"])
    say(f"[C14/b] {len(cases)} histories, {len(shapes)} distinct op-sequence shapes; "
        f"ops executed {dict(opcount)}")
    return {"histories": len(cases), "distinct_shapes": len(shapes),
            "ops_executed": dict(opcount), "op_outcomes": dict(outcomes)}, samples


def _minimise_history(ops, probe, env, fresh, cls, max_evals=10):
    from hsim.minimize import minimize, shrink_list

    def cands(cur):
        for sub in shrink_list(cur, min_len=0):
            yield sub
        for k, op in enumerate(cur):
            if op["op"] == "tok_reuse" and len(op["option_sets"]) > 1:
                for j in range(len(op["option_sets"])):
                    o2 = dict(op, option_sets=[op["option_sets"][j]])
                    yield cur[:k] + [o2] + cur[k + 1:]

    def test(cand):
        r = histsim.child({"kind": "history", "ops": cand, "probe": probe}, env)
        v = engines_more.classify_history(r, fresh)
        return v is not None and v["class"] == cls

    out, _ = minimize(list(ops), cands, test, max_evals=max_evals, max_seconds=240)
    return out


def _rt_job(case):
    return histsim.child({"kind": "roundtrip", "case": case}, {"PYTHONHASHSEED": "0"},
                         timeout=1500)


def phase_c(rep, tier, seed):
    sz = SIZES[tier]
    cases = []
    for i in range(sz["roundtrips"]):
        s = core.run_seed(seed, "c14-roundtrip", i)
        c = histsim.roundtrip_case(core.stream(s, "case"), s)
        if i % 4 == 1:
            # stratum: a scale option together with an unnormalised flux option - the pair
            # (flag, already-scaled value) must survive the round trip exactly once
            c["options"]["psi_divide_twopi"] = True
            c["options"].pop("reverse_current", None)
            c["explicit_psi"] = ["psi_sol"] if i % 8 == 1 else ["psi_core", "psi_sol"]
        if i % 4 == 2:
            # stratum: first grid through the Python API, with an option switched off by an
            # explicit None; the embedded pair must regenerate it through the command line
            from hsim import workloads

            c["first"] = "api"
            c["np"] = 1
            c["geometry"] = ("lsn", "usn")[(i // 4) % 2]  # the per-leg None is accepted
            c["options"] = workloads.tok_options(c["geometry"],
                                                 y_boundary_guards=(i // 8) % 2)
            c["explicit_psi"] = []
            c["options"][("target_outer_lower_poloidal_spacing_length",
                          "target_inner_lower_poloidal_spacing_length",
                          "refine_timeout")[(i // 4) % 3]] = None
        cases.append(c)
    res = batch.map_chunks(_rt_job, cases, limit_s=1800)
    status = collections.Counter()
    kinds = set()
    for c, r in zip(cases, res):
        status[r["status"]] += 1
        flags = tuple(sorted(k for k, v in c["options"].items() if v is True or v is False))
        kinds.add((c["geometry"], c["np"], flags))
        if r["status"] in ("violation", "hung"):
            v = {"class": "ROUNDTRIP" if r["status"] == "violation" else "ROUNDTRIP_HUNG",
                 "detail": "; ".join(r.get("problems") or [str(r.get("gen1"))])}
            what = (r.get("problems") or ["hung"])[0].split(":")[0].split("(")[0].strip()
            what = " ".join(w for w in what.split() if not w.isdigit())[:60]
            rep.violation(f"ROUNDTRIP:{what}", {"engine": "c14-roundtrip", "case": c,
                                               "violation": v}, text=v["detail"])
    say(f"[C14/c] {len(cases)} provenance round trips: {dict(status)}")
    return {"roundtrips": len(cases), "status": dict(status), "distinct_kinds": len(kinds)}, \
        [{"roundtrip_case": cases[0], "result": res[0]}]


def main(tier, seed):
    core.assert_repo_import()
    rep = Report("C14", tier, seed)
    a = rep.phase("env", phase_a, rep, tier, seed)
    info_b, samples_b, info_c, samples_c = {}, [], {}, []
    info_a = {}
    if a is not None:
        probes, envs, fresh, info_a = a
        b = rep.phase("histories", phase_b, rep, tier, seed, probes, envs, fresh)
        if b is not None:
            info_b, samples_b = b
    c = rep.phase("roundtrip", phase_c, rep, tier, seed)
    if c is not None:
        info_c, samples_c = c
    evaluations = info_a.get("digests_compared", 0) + info_b.get("histories", 0) + \
        info_c.get("roundtrips", 0)
    distinct = info_b.get("distinct_shapes", 0) + info_c.get("distinct_kinds", 0) + \
        info_a.get("probes", 0)
    coverage = {
        "evaluations": max(evaluations, 1),
        "distinct_nontrivial": distinct,
        "rule": "evaluations = environment-matrix digests compared + histories run (each in "
                "a fresh interpreter) + provenance round trips. Distinct non-trivial = "
                "distinct (operation kinds in order, probe) shapes among histories with at "
                "least one earlier operation + distinct (geometry, np, boolean option set) "
                "round-trip kinds + probes.",
        "samples": samples_b + samples_c,
        "env": info_a, "histories": info_b, "roundtrip": info_c,
    }
    return rep.finish(
        "exploration", coverage,
        assumptions=[
            "numeric arrays = every numeric variable of the grid file; provenance strings "
            "(hypnotoad_inputs*, versions, grid_id, git) are excluded as the statement allows",
            "uuid/date/git are stubbed except in the HSIM_REAL_ENV column of the matrix",
            "geqdsk inputs are synthesised with the repository's own writer (LF line ends)",
        ],
        extra={"components": {
            "real": ["TokamakEquilibrium / CircularEquilibrium / BoutMesh construction, "
                     "geometry, writeGridfile", "hypnotoad-geqdsk main()",
                     "hypnotoad-recreate-inputs main()", "netCDF4 files on disk",
                     "fresh CPython interpreters with varied PYTHONHASHSEED/threads/TZ/cwd"],
            "stub": ["uuid.uuid1, date.today, get_versions (seeded values)",
                     "func_timeout helper thread (inline)",
                     "multiprocessing (procsim) when number_of_processors>1"]}},
    )
