#!/bin/bash
# Runs every seeded change under /verif/seeded against its property's quick check
# (patch applied to /repo, always reverted) and writes seeded/results.json.
cd /verif
out=/verif/seeded/results.tsv
: > $out
for d in seeded/S*/; do
  id=$(basename $d)
  prop=$(/venv/bin/python -c "import json;m=json.load(open('$d/meta.json'));print(m.get('caught_by_check',m['breaks_property'])[:3])")
  t0=$(date +%s)
  res=$(tools/try_patch.sh /verif/$d/patch.diff quick $prop 2>&1)
  code=$(echo "$res" | grep "^exit=" | tail -1 | cut -d= -f2)
  first=$(echo "$res" | grep " violation " | head -1 | cut -c1-160)
  echo -e "$id\t$prop\t$code\t$(( $(date +%s) - t0 ))s\t$first" | tee -a $out
done
/venv/bin/python - <<'P'
import json
rows=[l.rstrip("\n").split("\t") for l in open("/verif/seeded/results.tsv")]
json.dump([{"id":r[0],"property":r[1],"quick_exit":int(r[2]) if r[2].isdigit() else r[2],"wall":r[3],"first_violation":r[4] if len(r)>4 else ""} for r in rows], open("/verif/seeded/results.json","w"), indent=1)
P
