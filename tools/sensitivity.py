#!/venv/bin/python
"""Sensitivity self-test (DESIGN.md 6.2): apply each mutant patch to /repo, run the
property's quick check, expect exit 1, revert.  Manual tool - it edits /repo's working
tree (and always reverts it); never part of a registered check.

    tools/sensitivity.py [--pytest] [name-substring ...]
"""
import glob
import json
import os
import subprocess
import sys
import time

VERIF = os.path.dirname(os.path.dirname(os.path.abspath(__file__)))
REPO = "/repo"
PROP = {"c13": "C13", "c14": "C14", "c15": "C15", "c12": "C12", "c01": "C01"}


def sh(*a, **kw):
    return subprocess.run(a, capture_output=True, text=True, **kw)


def main():
    args = [a for a in sys.argv[1:] if not a.startswith("--")]
    with_pytest = "--pytest" in sys.argv
    dirs = [os.path.join(VERIF, "hsim", "selftest", "mutants", "*.diff")]
    files = sorted(f for d in dirs for f in glob.glob(d))
    if args:
        files = [f for f in files if any(a in f for a in args)]
    assert sh("git", "-C", REPO, "status", "--porcelain", "--untracked-files=no").stdout.strip() == "", "repo dirty"
    results = {}
    out_path = os.path.join(VERIF, "hsim", "selftest", "sensitivity_results.json")
    if os.path.exists(out_path):
        results = json.load(open(out_path))
    for f in files:
        name = os.path.basename(f)[:-5]
        prop = PROP[name[:3]]
        r = sh("git", "-C", REPO, "apply", f)
        if r.returncode:
            print(name, "PATCH DOES NOT APPLY", r.stderr[-200:])
            continue
        try:
            entry = {"property": prop}
            if with_pytest:
                t = sh("/venv/bin/python", "-m", "pytest", "-q", "-p", "no:cacheprovider",
                       "--timeout=900", "-x", "-n", "8", cwd=REPO)
                entry["pytest"] = t.stdout.strip().splitlines()[-1][:80]
            t0 = time.time()
            c = sh("/venv/bin/python", os.path.join(VERIF, "checks", "run.py"), "--property",
                   prop, "--tier", "quick")
            lines = [ln for ln in c.stdout.splitlines() if ln.startswith("VIOLATION")
                     or " violation " in ln]
            entry.update({"exit": c.returncode, "wall_s": round(time.time() - t0),
                          "violations": [ln[:200] for ln in lines[:6]]})
            results[name] = entry
            print(name, prop, "exit", c.returncode, entry.get("pytest", ""),
                  f"{entry['wall_s']}s", (lines[0][:150] if lines else ""), flush=True)
        finally:
            sh("git", "-C", REPO, "checkout", "--", ".")
        json.dump(results, open(out_path, "w"), indent=1, sort_keys=True)


if __name__ == "__main__":
    main()
