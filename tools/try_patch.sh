#!/bin/bash
# usage: tools/try_patch.sh <patch.diff> <tier> <prop> [<prop> ...]
# Applies the patch to /repo, runs the given checks, and ALWAYS reverts /repo afterwards.
set -u
patch=$1; tier=$2; shift 2
cd /repo || exit 2
if [ -n "$(git status --porcelain --untracked-files=no)" ]; then echo "/repo is dirty"; exit 2; fi
git apply "$patch" || { echo "patch does not apply"; exit 2; }
trap 'git -C /repo checkout -- . ' EXIT
for p in "$@"; do
  echo "=== $p ($tier) with $(basename $(dirname $patch))/$(basename $patch)"
  timeout 5400 /venv/bin/python /verif/checks/run.py --property $p --tier $tier 2>&1 | grep "^\[C\|VIOLATION\|KNOWN\|HARNESS" | grep -v "^\[C1[23]/\?B\?\]  " | cut -c1-260
  echo "exit=${PIPESTATUS[0]}"
done
