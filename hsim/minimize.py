"""Greedy delta-debugging over (plan, choices) candidates.

`candidates(current)` yields simpler variants of `current`, simplest reductions first;
`test(candidate)` re-executes it and says whether the *same violation class* persists.
"""

import time


def minimize(current, candidates, test, max_evals=400, max_seconds=60.0):
    t0 = time.time()
    evals = 0
    improved = True
    while improved:
        improved = False
        for cand in candidates(current):
            if evals >= max_evals or time.time() - t0 > max_seconds:
                return current, evals
            evals += 1
            if test(cand):
                current = cand
                improved = True
                break
    return current, evals


def shrink_choices(choices):
    """Simpler choice traces: truncated, then with blocks zeroed (0 = no delay / first
    candidate, i.e. the FIFO schedule)."""
    n = len(choices)
    if n == 0:
        return
    if any(choices):
        yield [0] * n
    size = n
    while size >= 1:
        for a in range(0, n, size):
            blk = choices[a:a + size]
            if any(blk):
                yield choices[:a] + [0] * len(blk) + choices[a + size:]
        size //= 2
    # strip trailing zeros (replay treats a missing choice as 0)
    k = n
    while k > 0 and choices[k - 1] == 0:
        k -= 1
    if k < n:
        yield choices[:k]


def shrink_list(items, min_len=0):
    """Sub-lists with blocks removed, large blocks first."""
    n = len(items)
    size = n
    while size >= 1:
        for a in range(0, n, size):
            cand = items[:a] + items[a + size:]
            if len(cand) >= min_len and len(cand) < n:
                yield cand
        size //= 2
