"""Workloads: CIRC (circular core-only), TOK-A (tokamak from arrays, the example's
Gaussian-blob psi), TOK-G (the same written to geqdsk text with the repository's own
writer).  Nothing is fetched; everything is synthesised.
"""

import contextlib
import io

import numpy as np

# --------------------------------------------------------------------------- seams S6


@contextlib.contextmanager
def env_seams(uuid_value=None, versions=None, date_value=None):
    """Own the environment nondeterminism: uuid, date, version/git subprocesses.
    HSIM_UUID / HSIM_DATE choose the simulated values; HSIM_REAL_ENV=1 leaves the real
    uuid1 / date / git in place (used as one column of the C14 environment matrix)."""
    import datetime
    import os
    import uuid

    if os.environ.get("HSIM_REAL_ENV") == "1":
        yield
        return
    uuid_value = uuid_value or os.environ.get(
        "HSIM_UUID", "00000000-0000-1000-8000-000000000000")
    if date_value is None:
        date_value = tuple(int(x) for x in os.environ.get("HSIM_DATE", "2020-01-02").split("-"))

    import hypnotoad.core.mesh as meshmod
    import hypnotoad.geqdsk._geqdsk as gq

    real_uuid1 = uuid.uuid1
    real_get_versions = meshmod.get_versions
    real_date = gq.date

    class _Date(datetime.date):
        @classmethod
        def today(cls):
            return cls(*date_value)

    v = versions or {"version": "0+hsim", "full-revisionid": "0" * 40, "dirty": False,
                     "error": None, "date": None}
    uuid.uuid1 = lambda *a, **k: uuid.UUID(uuid_value)
    meshmod.get_versions = lambda: dict(v)
    gq.date = _Date
    try:
        yield
    finally:
        uuid.uuid1 = real_uuid1
        meshmod.get_versions = real_get_versions
        gq.date = real_date


# --------------------------------------------------------------------------- CIRC

CIRC_BASE = {
    "nx": 4,
    "ny": 8,
    "finecontour_Nfine": 40,
}


def circ_options(rng, orthogonal=None):
    """A circular core-only configuration inside the calibrated envelope (see
    DESIGN.md section 4: orthogonal ~95 % generate, non-orthogonal ~70 %; a refusal is
    counted and skipped, never a violation)."""
    if orthogonal is None:
        orthogonal = rng.random() < 0.6
    o = {
        "nx": rng.choice((3, 4, 5, 6)),
        "ny": rng.choice((6, 8, 10, 12)) if orthogonal else rng.choice((6, 8)),
        "finecontour_Nfine": rng.choice((30, 40, 60)),
        "q_coefficients": rng.choice(([3.4567890123456789], [2.5], [2.0, 10.0])),
        "r_inner": rng.choice((0.1, 0.12)),
        "r_outer": rng.choice((0.3, 0.28)),
        "orthogonal": orthogonal,
        "y_boundary_guards": rng.choice((0, 1, 2)),
    }
    if orthogonal:
        o["curvature_type"] = rng.choice(("curl(b/B)", "curl(b/B) with x-y derivatives"))
    else:
        o["nonorthogonal_spacing_method"] = rng.choice(
            ("poloidal_orthogonal_combined", "poloidal_orthogonal_combined", "combined"))
        o["nonorthogonal_xpoint_poloidal_spacing_length"] = rng.choice((0.8, 1.0, 1.5))
        o["nonorthogonal_xpoint_poloidal_spacing_range"] = rng.choice((0.05, 0.1))
    return o


def build_circular(options):
    import copy

    from hypnotoad.cases.circular import CircularEquilibrium
    from hypnotoad.core.mesh import BoutMesh

    # one dict object for all three, as the scripts and the GUI do; it is the caller's
    # and must come back unchanged
    opts = copy.deepcopy(dict(options))
    snap = copy.deepcopy(opts)
    try:
        eq = CircularEquilibrium(settings=opts, nonorthogonal_settings=opts)
        mesh = BoutMesh(eq, opts)
    finally:
        if opts != snap:
            INPUT_MUTATIONS.append({"where": "build_circular", "arrays": ["settings"]})
    return eq, mesh


# --------------------------------------------------------------------------- TOK-A

TOK_GEOMETRIES = ("lsn", "usn", "cdn", "udn", "ldn", "udn2")


def _psi_func(geometry, p):
    """The example's analytic psi (examples/tokamak/tokamak_example.py) with optional
    seeded perturbations p = dict(dr0, dz0, w)."""
    r0 = 1.5 + p.get("dr0", 0.0)
    z0 = 0.3 + p.get("dz0", 0.0)
    w2 = (0.3 + p.get("dw", 0.0)) ** 2
    e = np.exp

    def g(R, Z, zc):
        return e(-((R - r0) ** 2 + (Z - zc) ** 2) / w2)

    funcs = {
        "lsn": lambda R, Z: g(R, Z, -z0 + 0.3) + g(R, Z, -z0 - 0.3),
        "usn": lambda R, Z: g(R, Z, z0 + 0.3) + g(R, Z, z0 - 0.3),
        "cdn": lambda R, Z: g(R, Z, 0.0) + g(R, Z, -2 * z0) + g(R, Z, 2 * z0),
        "udn": lambda R, Z: g(R, Z, 0.0) + g(R, Z, -2 * z0 - 0.002) + g(R, Z, 2 * z0),
        "ldn": lambda R, Z: -g(R, Z, 0.0) - g(R, Z, -2 * z0) - g(R, Z, 2 * z0 + 0.003),
        "udn2": lambda R, Z: g(R, Z, 0.0) + g(R, Z, -2 * z0 - 0.02) + g(R, Z, 2 * z0),
    }
    return funcs[geometry], r0


def tokamak_arrays(geometry="lsn", n=65, perturb=None, fpol=True, pressure=True,
                   wall="rect"):
    """Caller-side input arrays for TokamakEquilibrium, fresh copies on every call."""
    p = perturb or {}
    r1d = np.linspace(1.0, 2.0, n)
    z1d = np.linspace(-0.7, 0.7, n)
    r2d, z2d = np.meshgrid(r1d, z1d, indexing="ij")
    f, r0 = _psi_func(geometry, p)
    psi2d = f(r2d, z2d)
    psi1d = f(np.linspace(r0, 1.2 * r0, n), 0.0)
    s = np.linspace(0.0, 1.0, n)
    fpol1d = (3.0 + 0.2 * (1.0 - s) ** 2) if fpol else np.array([])
    pres = (1.0e3 * (1.0 - 0.9 * s) ** 2 + 50.0) if pressure else None
    extra = 0.2
    rmin, rmax = r1d.min() + extra, r1d.max() - extra
    zmin, zmax = z1d.min() + extra, z1d.max() - extra
    if wall == "rect":
        w = [(rmin, zmin), (rmin, zmax), (rmax, zmax), (rmax, zmin)]
    elif wall == "slanted":
        w = [(rmin, zmin), (rmin - 0.05, 0.0), (rmin, zmax), (rmax, zmax),
             (rmax + 0.05, 0.0), (rmax, zmin)]
    else:
        w = None
    return {"R1D": r1d, "Z1D": z1d, "psi2D": psi2d, "psi1D": psi1d, "fpol1D": fpol1d,
            "pressure": pres, "wall": w}


TOK_SMALL = {
    "lsn": {"nx_core": 3, "nx_sol": 3, "ny_inner_divertor": 4, "ny_sol": 8,
            "ny_outer_divertor": 4},
    "usn": {"nx_core": 3, "nx_sol": 3, "ny_inner_divertor": 4, "ny_sol": 8,
            "ny_outer_divertor": 4},
    "cdn": {"nx_core": 3, "nx_sol": 3, "ny_inner_lower_divertor": 4,
            "ny_inner_upper_divertor": 4, "ny_inner_sol": 4, "ny_outer_sol": 4,
            "ny_outer_lower_divertor": 4, "ny_outer_upper_divertor": 4},
}
for _g in ("udn", "ldn", "udn2"):
    TOK_SMALL[_g] = dict(TOK_SMALL["cdn"], nx_inter_sep=1)

TOK_COMMON = {
    "psinorm_core": 0.8, "psinorm_sol": 1.2, "psinorm_pf": 0.9,
    "psi_spacing_separatrix_multiplier": 0.5,
    "target_all_poloidal_spacing_length": 0.3,
    "xpoint_poloidal_spacing_length": 0.05,
    "finecontour_Nfine": 40,
    "y_boundary_guards": 1,
}


def tok_options(geometry, **over):
    o = dict(TOK_COMMON)
    o.update(TOK_SMALL[geometry])
    o.update(over)
    return o


INPUT_MUTATIONS = []  # findings of the caller-object oracle (C14), read by histsim


def snapshot_inputs(arrs):
    import copy

    return {k: copy.deepcopy(v) for k, v in arrs.items()}


def compare_inputs(arrs, snap, where):
    """Caller-side oracle: the arrays handed to a constructor must compare equal to the
    copies taken before the call."""
    found = []
    for k, before in snap.items():
        after = arrs[k]
        if isinstance(before, np.ndarray):
            same = isinstance(after, np.ndarray) and after.shape == before.shape and \
                np.array_equal(after, before)
        else:
            same = after == before
        if not same:
            found.append(k)
    if found:
        INPUT_MUTATIONS.append({"where": where, "arrays": sorted(found)})
    return found


def build_tokamak(arrs, options, nonorth=None, equilibrium_only=False, where="build_tokamak"):
    from hypnotoad.cases import tokamak
    from hypnotoad.core.mesh import BoutMesh

    import copy

    snap = snapshot_inputs(arrs)
    opts = copy.deepcopy(dict(options))
    nopts = opts if nonorth is None else copy.deepcopy(dict(nonorth))
    osnap = (copy.deepcopy(opts), copy.deepcopy(nopts))
    try:
        eq = tokamak.TokamakEquilibrium(
            arrs["R1D"], arrs["Z1D"], arrs["psi2D"], arrs["psi1D"], arrs["fpol1D"],
            pressure=arrs.get("pressure"), wall=arrs.get("wall"),
            settings=opts, nonorthogonal_settings=nopts,
        )
        if equilibrium_only:
            return eq, None
        mesh = BoutMesh(eq, opts)
    finally:
        compare_inputs(arrs, snap, where)
        if (opts, nopts) != osnap:
            INPUT_MUTATIONS.append({"where": where, "arrays": ["settings"]})
    return eq, mesh


# --------------------------------------------------------------------------- TOK-G


def geqdsk_text(arrs, options=None):
    """geqdsk text of the arrays, produced by the repository's own writer.  simagx /
    sibdry are psi at the O-/X-point of a make_regions=False build, as EFIT would give."""
    from hypnotoad.cases import tokamak
    from hypnotoad.geqdsk import _geqdsk

    a = {k: (v.copy() if isinstance(v, np.ndarray) else v) for k, v in arrs.items()}
    eq = tokamak.TokamakEquilibrium(
        a["R1D"], a["Z1D"], a["psi2D"], a["psi1D"], a["fpol1D"], wall=a["wall"],
        make_regions=False, settings={},
    )
    n = len(arrs["R1D"])
    ny = len(arrs["Z1D"])
    s = np.linspace(0.0, 1.0, n)
    fpol = arrs["fpol1D"] if len(arrs["fpol1D"]) else np.full(n, 3.0)
    pres = arrs["pressure"] if arrs.get("pressure") is not None else np.zeros(n)
    wall = arrs["wall"] or [(1.01, -0.69), (1.99, -0.69), (1.99, 0.69), (1.01, 0.69)]
    data = {
        "nx": n, "ny": ny,
        "rdim": float(arrs["R1D"][-1] - arrs["R1D"][0]),
        "zdim": float(arrs["Z1D"][-1] - arrs["Z1D"][0]),
        "rcentr": 1.5, "bcentr": 2.0, "rleft": float(arrs["R1D"][0]),
        "zmid": float(0.5 * (arrs["Z1D"][0] + arrs["Z1D"][-1])),
        "rmagx": float(eq.o_point.R), "zmagx": float(eq.o_point.Z),
        "simagx": float(eq.psi_axis), "sibdry": float(eq.psi_bdry), "cpasma": 1.0e6,
        "fpol": np.asarray(fpol, dtype=float), "pres": np.asarray(pres, dtype=float),
        "qpsi": 1.0 + 2.0 * s**2, "psi": np.asarray(arrs["psi2D"], dtype=float),
        "rlim": [w[0] for w in wall], "zlim": [w[1] for w in wall],
        "rbdry": [1.4, 1.6, 1.6, 1.4], "zbdry": [-0.1, -0.1, 0.1, 0.1],
    }
    fh = io.StringIO()
    _geqdsk.write(data, fh)
    return fh.getvalue()


# --------------------------------------------------------------------------- generate


def generate(mesh, path):
    """The GUI/CLI protocol after construction."""
    mesh.calculateRZ()
    mesh.geometry()
    mesh.writeGridfile(path)
    return path
