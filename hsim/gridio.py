"""Reading grid files and comparing them."""

import hashlib

import numpy as np

PROVENANCE = {
    "hypnotoad_inputs", "hypnotoad_inputs_yaml", "Python_version", "module_versions",
    "hypnotoad_input_geqdsk_file_contents",
}
PROVENANCE_ATTRS = {
    "grid_id", "hypnotoad_version", "hypnotoad_git_hash", "hypnotoad_git_diff",
    "hypnotoad_geqdsk_filename",
}


def read_grid(path):
    """{name: ndarray or str} for every variable, plus '@attr' entries for file
    attributes.  Masked values become NaN."""
    import netCDF4

    out = {}
    with netCDF4.Dataset(path) as ds:
        ds.set_auto_mask(False)
        for name, var in ds.variables.items():
            if var.dtype is str or var.dtype.kind in "SU":
                v = var[...]
                if isinstance(v, np.ndarray) and v.dtype.kind == "S":
                    v = v.tobytes().decode("utf-8", "replace")
                elif isinstance(v, np.ndarray):
                    v = "".join(str(x) for x in v.flat)
                out[name] = v
            else:
                out[name] = np.array(var[...])
        for a in ds.ncattrs():
            out["@" + a] = ds.getncattr(a)
    return out


def numeric_items(grid):
    for k in sorted(grid):
        v = grid[k]
        if isinstance(v, np.ndarray) and v.dtype.kind in "fiub" and k not in PROVENANCE:
            yield k, v


def numeric_digest(grid):
    h = hashlib.blake2b(digest_size=16)
    for k, v in numeric_items(grid):
        h.update(k.encode())
        h.update(str(v.shape).encode())
        h.update(str(v.dtype).encode())
        h.update(np.ascontiguousarray(v).tobytes())
    return h.hexdigest()


def diff_bitwise(a, b):
    """Names of numeric variables that are not bit-identical (NaN == NaN), with the
    largest absolute difference; plus variables present in only one file."""
    out = []
    ka = dict(numeric_items(a))
    kb = dict(numeric_items(b))
    for k in sorted(set(ka) | set(kb)):
        if k not in ka or k not in kb:
            out.append((k, "missing in " + ("first" if k not in ka else "second")))
            continue
        x, y = ka[k], kb[k]
        if x.shape != y.shape:
            out.append((k, f"shape {x.shape} vs {y.shape}"))
        elif not np.array_equal(x, y, equal_nan=(x.dtype.kind == "f")):
            with np.errstate(invalid="ignore"):
                d = np.nanmax(np.abs(x.astype(float) - y.astype(float)))
            out.append((k, f"max|diff|={d:.3e}"))
    return out


def diff_tol(a, b, tol_abs, tol_rel, position_names=()):
    """Largest violation of |a-b| <= tol_abs[k] + tol_rel*|b| over numeric variables.
    Returns (list of offending (name, detail), observed maxima dict)."""
    bad = []
    observed = {}
    ka = dict(numeric_items(a))
    kb = dict(numeric_items(b))
    for k in sorted(set(ka) | set(kb)):
        if k not in ka or k not in kb:
            bad.append((k, "missing in " + ("first" if k not in ka else "second")))
            continue
        x, y = ka[k].astype(float), kb[k].astype(float)
        if x.shape != y.shape:
            bad.append((k, f"shape {x.shape} vs {y.shape}"))
            continue
        nan_x, nan_y = np.isnan(x), np.isnan(y)
        if not np.array_equal(nan_x, nan_y):
            bad.append((k, "NaN pattern differs"))
            continue
        if x.size == 0:
            continue
        ta = tol_abs if k not in position_names else tol_abs
        with np.errstate(invalid="ignore"):
            d = np.abs(x - y)
            scale = np.nanmax(np.abs(y)) if np.any(~nan_y) else 0.0
            lim = ta + tol_rel * max(scale, 0.0)
            m = np.nanmax(d) if np.any(~nan_x) else 0.0
        observed[k] = float(m / (scale if scale > 0 else 1.0))
        if m > lim:
            bad.append((k, f"max|diff|={m:.3e} > {lim:.3e} (scale {scale:.3e})"))
    return bad, observed
