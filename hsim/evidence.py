"""Evidence files (/verif/evidence/<id>.json) and the known-findings list."""

import json
import os
import subprocess
import sys

from .core import VERIF, HarnessError, _default

SCHEMA = "/root/.vp/EVIDENCE.schema.json"


def write(property_id, tier, seed, level, coverage, wall_s, violations, assumptions,
          extra=None):
    ev = {
        "property_id": property_id,
        "tier": tier,
        "seed": int(seed),
        "level": level,
        "coverage": coverage,
        "assumptions": list(assumptions),
        "wall_s": round(float(wall_s), 3),
        "violations": int(violations),
    }
    if extra:
        ev.update(extra)
    path = os.path.join(VERIF, "evidence", f"{property_id}.json")
    os.makedirs(os.path.dirname(path), exist_ok=True)
    tmp = path + ".tmp"
    with open(tmp, "w") as f:
        json.dump(ev, f, indent=1, sort_keys=True, default=_default)
        f.write("\n")
    os.replace(tmp, path)
    validate(path)
    return path


def validate(path):
    if not os.path.exists(SCHEMA):
        return
    sys.path.insert(0, os.path.join(VERIF, ".deps"))
    try:
        import jsonschema
    except ImportError:
        jsonschema = None
    finally:
        sys.path.pop(0)
    if jsonschema is not None:
        with open(SCHEMA) as f:
            schema = json.load(f)
        with open(path) as f:
            inst = json.load(f)
        try:
            jsonschema.validate(inst, schema)
        except jsonschema.ValidationError as e:
            raise HarnessError(f"evidence {path} does not validate: {e.message}")
        return
    code = (
        "import json,sys,jsonschema;"
        "jsonschema.validate(json.load(open(sys.argv[1])),json.load(open(sys.argv[2])))"
    )
    try:
        r = subprocess.run(["python3-vt", "-c", code, path, SCHEMA], capture_output=True,
                           text=True, timeout=60)
    except (OSError, subprocess.TimeoutExpired):
        return  # no validator available; the file is still written
    if r.returncode != 0:
        raise HarnessError(f"evidence {path} does not validate: {r.stderr[-400:]}")


class Findings:
    """/verif/known_findings.json: read-only at run time."""

    def __init__(self):
        path = os.path.join(VERIF, "known_findings.json")
        self.open = []
        self.fixed = []
        if os.path.exists(path):
            with open(path) as f:
                d = json.load(f)
            self.open = d.get("open", [])
            self.fixed = d.get("fixed", [])

    def match(self, property_id, key):
        for f in self.open:
            if f["property"] == property_id and f["key"] == key:
                return f
        return None
