"""Replayers for the C14 / C15 / C12 / C01 engines (see engines.replayer)."""

from . import core


def _c14_history(rec):
    from . import histsim

    r = histsim.run_history(rec["ops"], rec["probe"])
    fresh = rec.get("fresh")
    return {"violation": classify_history(r, fresh), "event_log_digest": None, "result": r}


def classify_history(r, fresh):
    if r["input_mutations"]:
        m = r["input_mutations"][0]
        arrays = sorted({a for x in r["input_mutations"] for a in x["arrays"]})
        return {"class": "INPUT_MUTATED",
                "detail": f"caller arrays {arrays} differ from their copies after "
                          f"{m['where']} ({len(r['input_mutations'])} constructions in all)",
                "arrays": arrays}
    if fresh is not None:
        p = r["probe"]
        if p["outcome"] != fresh["outcome"]:
            return {"class": "HISTORY_DEPENDENCE",
                    "detail": f"probe {p['outcome']} ({p.get('exc')}) after the history but "
                              f"{fresh['outcome']} in a fresh interpreter"}
        if p["outcome"] == "returned" and p["digest"] != fresh["digest"]:
            return {"class": "HISTORY_DEPENDENCE",
                    "detail": "numeric arrays of the probe grid differ from the same probe "
                              "in a fresh interpreter"}
    return None


def _c14_env(rec):
    from . import histsim

    base = histsim.child({"kind": "probe", "scenario": rec["probe"]}, rec["envs"][0])
    v = None
    if rec.get("variant_scenario"):
        # a simulated-parallel or stalled-machine variant, run in this interpreter
        other = histsim.probe(rec["variant_scenario"])
        stalled_loudly = rec["variant"].startswith("stall") and \
            other["outcome"] == "raised" and other.get("exc") == "FunctionTimedOut"
        if not stalled_loudly and (other["outcome"], other.get("digest")) != \
                (base["outcome"], base.get("digest")):
            v = {"class": "ENV_DEPENDENCE",
                 "detail": f"probe gives {other['outcome']}/{other.get('digest')} under "
                           f"{rec['variant']} but {base['outcome']}/{base.get('digest')} in "
                           "the baseline environment"}
        return {"violation": v, "event_log_digest": None}
    for env in rec["envs"][1:]:
        other = histsim.child({"kind": "probe", "scenario": rec["probe"]}, env)
        if (other["outcome"], other.get("digest")) != (base["outcome"], base.get("digest")):
            v = {"class": "ENV_DEPENDENCE",
                 "detail": f"probe differs between environments {rec['envs'][0]} and {env}"}
            break
    return {"violation": v, "event_log_digest": None}


def _c14_roundtrip(rec):
    from . import histsim

    r = histsim.run_roundtrip(rec["case"])
    v = None
    if r["status"] == "violation":
        v = {"class": "ROUNDTRIP", "detail": "; ".join(r["problems"])}
    elif r["status"] == "hung":
        v = {"class": "ROUNDTRIP_HUNG", "detail": str(r["gen1"])}
    return {"violation": v, "event_log_digest": None, "result": r}


TABLE = {
    "c14-history": _c14_history,
    "c14-env": _c14_env,
    "c14-roundtrip": _c14_roundtrip,
}


def _merge_optional():
    import importlib

    for modname in ("regridsim", "faultsim"):
        try:
            mod = importlib.import_module(f"hsim.{modname}")
        except ModuleNotFoundError as e:
            if e.name != f"hsim.{modname}":
                raise
            continue
        TABLE.update(getattr(mod, "REPLAYERS", {}))


_merge_optional()
