"""regridsim (C15): histories of redistributePoints calls on a live non-orthogonal mesh
versus a mesh built from scratch with the final settings.

The machine follows the GUI's protocol (gui.py: regrid = redistributePoints(options);
calculateRZ(), write = geometry(); writeGridfile()).  The GUI catches ValueError,
TypeError, FunctionTimedOut and SolutionError and lets the user carry on with the same
mesh, so an operation that raises is followed by further operations on the same object.
"""

import contextlib
import os
import random
import shutil
import warnings

import numpy as np

from . import core, engines, faults, gridio, workloads
from .procsim import ProcSim, SimAbort

POS_TOL = 1.0e-6  # metres; see DESIGN.md C15 (observed <= 1e-8 on the unchanged tree)
REL_TOL = 1.0e-5

# ---------------------------------------------------------------- workloads / settings

GEOMS = ("lsn", "usn", "cdn", "udn", "ldn")


def base_options(wl):
    geom = wl["geometry"]
    o = workloads.tok_options(geom, orthogonal=False, y_boundary_guards=wl["guards"])
    if geom in ("lsn", "usn"):
        # the example's orthogonal spacings are refused for non-orthogonal single nulls;
        # hypnotoad's own defaults generate
        o.pop("target_all_poloidal_spacing_length")
        o.pop("xpoint_poloidal_spacing_length")
    return o


def settings_pool(geom):
    """Non-orthogonal settings calibrated to generate for every workload (a refusal is
    still only counted).  Index 0 is the default."""
    dn = geom not in ("lsn", "usn")
    xl = 0.0125 if dn else 0.25
    pool = [
        {},
        {"nonorthogonal_xpoint_poloidal_spacing_length": xl * 2.4},
        {"nonorthogonal_xpoint_poloidal_spacing_length": xl * 0.6},
        {"nonorthogonal_target_all_poloidal_spacing_length": 0.5},
        {"nonorthogonal_target_all_poloidal_spacing_length": 0.2 if dn else 0.7},
        {"nonorthogonal_xpoint_poloidal_spacing_range": 0.2,
         "nonorthogonal_target_all_poloidal_spacing_range": 0.4},
        {"nonorthogonal_xpoint_poloidal_spacing_range_inner": 0.1,
         "nonorthogonal_target_all_poloidal_spacing_range_outer": 0.15},
        {"nonorthogonal_radial_range_power": 2.0},
        {"nonorthogonal_target_all_poloidal_spacing_length": 0.4,
         "nonorthogonal_xpoint_poloidal_spacing_range": 0.15,
         "nonorthogonal_radial_range_power": 1.5},
    ]
    return pool


METHOD_SETTINGS = [
    {"nonorthogonal_spacing_method": "poloidal_orthogonal_combined"},
    {"nonorthogonal_spacing_method": "combined"},
    {"nonorthogonal_spacing_method": "perp_orthogonal_combined"},
]

# Options that are not nonorthogonal_*: a regrid must ignore them (or refuse the call).
# The benign ones are all put into the dict together - if any of them takes effect the
# result moves away from the fresh build; the risky ones (which would probably make the
# regrid raise if they took effect, hiding the others) are sampled two at a time.
JUNK_BENIGN = {
    "finecontour_Nfine": 77, "refine_width": 1.0e-3, "refine_atol": 1.0e-5,
    "finecontour_atol": 1.0e-6, "N_norm_prefactor": 3.0,
    "xpoint_poloidal_spacing_length": 0.123, "target_all_poloidal_spacing_length": 0.77,
    "psi_spacing_separatrix_multiplier": 0.9, "xpoint_offset": 0.3,
    "wall_point_exclude_radius": 0.05, "follow_perpendicular_rtol": 1.0e-3,
    "finecontour_overdamping_factor": 0.5, "finecontour_extend_prefactor": 4.0,
    "sfunc_checktol": 1.0e-3, "geometry_rtol": 1.0e-3, "poloidal_spacing_delta_psi": 0.02,
}
JUNK = [
    {"y_boundary_guards": 2}, {"nx_core": 7}, {"psinorm_sol": 1.15},
    {"curvature_type": "bxkappa"}, {"refine_methods": ["line"]},
    {"poloidal_spacing_method": "monotonic"}, {"finecontour_maxits": 2},
    {"ny_sol": 12}, {"orthogonal": True}, {"shiftedmetric": False},
]

BAD = [
    {"nonorthogonal_xpoint_poloidal_spacing_length": -1.0},
    {"nonorthogonal_target_all_poloidal_spacing_range": "wide"},
    {"nonorthogonal_spacing_method": "nonsense"},
    {"nonorthogonal_radial_range_power": None},
]

# calibrated on the unchanged tree: each of these makes redistributePoints raise part-way
# (in _checkMonotonic or brentq) for every topology, after some regions have already been
# redistributed, without leaving a guard-less mesh unusable
OUTSIDE = [
    {"nonorthogonal_target_all_poloidal_spacing_length": 10.0,
     "nonorthogonal_target_all_poloidal_spacing_range": 0.1},
    {"nonorthogonal_xpoint_poloidal_spacing_length": 50.0},
    {"nonorthogonal_target_outer_lower_poloidal_spacing_length": 20.0,
     "nonorthogonal_target_all_poloidal_spacing_range": 0.1},
    # milder excesses: depending on the topology these are refused at the first contour,
    # in the middle of a region (some of its contours already regridded in place), in a
    # later region, or not at all - the depth at which a regrid fails is part of the search
    {"nonorthogonal_xpoint_poloidal_spacing_length": 2.0},
    {"nonorthogonal_xpoint_poloidal_spacing_length": 3.0},
    {"nonorthogonal_xpoint_poloidal_spacing_length": 5.1},
    {"nonorthogonal_xpoint_poloidal_spacing_length": 8.0},
    {"nonorthogonal_xpoint_poloidal_spacing_length": 20.0},
    {"nonorthogonal_target_all_poloidal_spacing_length": 4.0,
     "nonorthogonal_target_all_poloidal_spacing_range": 0.1},
    {"nonorthogonal_target_all_poloidal_spacing_length": 6.0,
     "nonorthogonal_target_all_poloidal_spacing_range": 0.1},
]


def make_case(rng, allow_method_change=False, faults_ok=False, geoms=GEOMS, np_choices=(1,)):
    geom = rng.choice(geoms)
    wl = {"geometry": geom, "guards": rng.choice((0, 0, 1)),
          "wall": rng.choice(("rect", "slanted")), "np": rng.choice(np_choices)}
    pool = settings_pool(geom)
    s0 = dict(rng.choice(pool))
    method_change = allow_method_change and rng.random() < 0.5
    if method_change and rng.random() < 0.5:
        s0.update(rng.choice(METHOD_SETTINGS))
    ops = []
    visited = [s0]
    nops = rng.choice((0, 1, 1, 2, 2, 3))
    while len(ops) < nops:
        k = rng.choices(("regrid", "return", "repeat", "junk", "bad", "outside", "write",
                         "fault"),
                        weights=(5, 2, 1, 3, 1.5, 2.5, 1.5, 2.0 if faults_ok else 0))[0]
        if k == "regrid":
            s = dict(rng.choice(pool))
            if method_change and rng.random() < 0.5:
                s.update(rng.choice(METHOD_SETTINGS))
            op = {"op": "regrid", "s": s}
            if rng.random() < (0.25 if s else 0.6):
                # (an empty dict - "back to the defaults" - is itself a partial dict)
                op["partial"] = True
            ops.append(op)
            visited.append(s)
        elif k == "return":
            s = dict(rng.choice(visited))
            ops.append({"op": "regrid", "s": s})
        elif k == "repeat":
            s = dict(visited[-1])
            ops.append({"op": "regrid", "s": s})
        elif k == "junk":
            s = dict(rng.choice(pool))
            # several non-nonorthogonal options at once: none of them may take effect
            junk = dict(JUNK_BENIGN)
            if rng.random() < 0.5:
                for j in rng.sample(JUNK, 2):
                    junk.update(j)
            ops.append({"op": "regrid", "s": s, "junk": junk})
            visited.append(s)
        elif k == "bad":
            ops.append({"op": "regrid", "s": dict(rng.choice(BAD)), "expect": "refused"})
        elif k == "outside":
            # settings that raise half-way: some regions are already redistributed, the
            # rest are not; the bad values ride on top of an ordinary change of settings,
            # and the user then typically repairs only the offending values
            others = [p for p in pool if p != visited[-1]] or pool
            good = dict(rng.choice(others))
            bad = dict(rng.choice(OUTSIDE))
            s = dict(good)
            s.update(bad)
            good = {k: v for k, v in good.items() if k not in bad}
            ops.append({"op": "regrid", "s": s, "tag": "outside"})
            if rng.random() < 0.4:
                # the same kind of refusal at a depth the simulator chooses: the n-th
                # contour of the redistribution is refused (faults.RegridRefusal)
                ops[-1] = {"op": "regrid", "s": dict(good), "tag": "outside",
                           "refuse_at": rng.choice((2, 3, 4, 6, 9, 13, 20, 30, 45))}
            if rng.random() < 0.3:
                # the user dismisses the error and writes the grid all the same
                ops.append({"op": "write"})
            r = rng.random()
            if r < 0.45:
                ops.append({"op": "regrid", "s": good, "tag": "repair"})
                visited.append(good)
            elif r < 0.8:
                # ... or simply goes back to the settings that worked last
                ops.append({"op": "regrid", "s": dict(visited[-1]), "tag": "undo"})
        elif k == "write":
            ops.append({"op": "write"})
        elif k == "fault":
            key = rng.randrange(2**31)
            if rng.random() < 0.5:
                f = {"buggify": {"mode": "content", "key": key,
                                 "arm": {"newton": 1.0,
                                         "integrate": rng.choice((3e-3, 1e-2))}}}
            else:
                f = {"clock": {"key": key, "slowness": 1.0,
                               "slow_prob": rng.choice((1e-3, 1e-2))}}
            s = dict(rng.choice(pool))
            ops.append(dict({"op": "regrid", "s": s}, **f))
            r = rng.random()
            if r < 0.45:
                # the interrupted regrid is simply tried again with the same settings
                ops.append({"op": "regrid", "s": dict(s), "tag": "retry"})
                visited.append(s)
            elif r < 0.8:
                ops.append({"op": "regrid", "s": dict(visited[-1]), "tag": "undo"})
    final = dict(rng.choice(pool))
    if method_change:
        final.update(rng.choice(METHOD_SETTINGS))
    ops.append({"op": "regrid", "s": final})
    ops.append({"op": "write"})
    if rng.random() < 0.3:
        ops.insert(rng.randrange(0, len(ops) - 1), other_mesh_op(rng, geom))
    return {"workload": wl, "s0": s0, "ops": ops}


def other_mesh_op(rng, geom):
    """See _other_mesh: mostly a circular mesh (one region, 2 s), at times a tokamak of
    another topology."""
    if rng.random() < 0.8:
        o = workloads.circ_options(rng, orthogonal=False)
        return {"op": "other_mesh", "geometry": "circ", "options": o,
                "s": {"nonorthogonal_xpoint_poloidal_spacing_length": rng.choice((0.8, 1.2)),
                      "nonorthogonal_xpoint_poloidal_spacing_range": rng.choice((0.05, 0.1))},
                "geometry_too": rng.random() < 0.5}
    g2 = rng.choice([g for g in ("lsn", "cdn") if g != geom])
    return {"op": "other_mesh", "geometry": g2, "s": dict(rng.choice(settings_pool(g2)))}


def method_of(s):
    return s.get("nonorthogonal_spacing_method", "combined")


def has_method_change(case):
    """Does the history call redistributePoints with a nonorthogonal_spacing_method other
    than the one the mesh was constructed with?"""
    m0 = method_of(case["s0"])
    for op in case["ops"]:
        if op["op"] == "regrid" and op.get("expect") != "refused" \
                and method_of(op["s"]) != m0:
            return True
    return False


# ---------------------------------------------------------------- execution


def _build(wl, nonorth, refine_timeout=None):
    base = base_options(wl)
    base["number_of_processors"] = wl.get("np", 1)
    if refine_timeout is not None:
        base["refine_timeout"] = refine_timeout
    arrs = workloads.tokamak_arrays(wl["geometry"], wall=wl.get("wall", "rect"))
    eq, mesh = workloads.build_tokamak(arrs, dict(base, **nonorth))
    mesh.calculateRZ()
    # `base` holds no nonorthogonal_* key: every regrid passes base + its own settings, as
    # a fresh build with those settings would
    return base, eq, mesh


def _other_mesh(op):
    """Another mesh of another topology, built, regridded and dropped in the same
    interpreter (a GUI session that loads the next case; a script looping over cases).
    Nothing of it may reach the mesh under test."""
    try:
        if op["geometry"] == "circ":
            eq, mesh = workloads.build_circular(op["options"])
            full = op["options"]
        else:
            wl = {"geometry": op["geometry"], "guards": 0, "wall": "rect", "np": 1}
            full, eq, mesh = _build(wl, {})
        mesh.calculateRZ()
        mesh.redistributePoints(dict(full, **op["s"]))
        mesh.calculateRZ()
        if op.get("geometry_too"):
            mesh.geometry()
        return "ok"
    except SimAbort:
        raise
    except Exception as e:  # noqa: BLE001
        if isinstance(e, core.HarnessError):
            raise
        return "raised:" + type(e).__name__
    finally:
        eq = mesh = None


def endpoints(mesh):
    out = {}
    for rid, region in mesh.regions.items():
        pts = []
        for c in region.contours:
            a, b = c[c.startInd], c[c.endInd]
            pts.append((a.R, a.Z, b.R, b.Z))
        out[rid] = np.array(pts)
    return out


def wall_distance(eq, R, Z):
    w = eq.closed_wallarray
    a, b = w[:-1], w[1:]
    p = np.array([R, Z])
    ab = b - a
    t = np.clip(((p - a) * ab).sum(axis=1) / (ab * ab).sum(axis=1), 0.0, 1.0)
    proj = a + t[:, None] * ab
    return float(np.sqrt(((proj - p) ** 2).sum(axis=1)).min())


def check_endpoints(mesh, before, after):
    """Cross-invariant after a successful regrid (the history clauses of C10 / C11): the
    first and last in-domain point of every contour -- the X-point / target ends, the
    latter sitting on the wall -- are not moved by redistribution.  (How close a target
    point is to the wall in the first place is C11's business, ~3e-6 m at Nfine=40, and is
    not re-judged here.)"""
    worst = 0.0
    for rid in before:
        if before[rid].shape != after[rid].shape:
            return f"region {rid}: number of contours changed", None
        d = float(np.abs(before[rid] - after[rid]).max())
        worst = max(worst, d)
        if d > POS_TOL:
            return f"region {rid}: a region end point moved by {d:.3e} m", worst
    return None, worst


def reference(case, refdir=None):
    """Fresh build with the final settings (memoised as a file when refdir is given)."""
    final = [op for op in case["ops"] if op["op"] == "regrid"][-1]["s"]
    wl = dict(case["workload"], np=1)
    key = core.digest_of([wl, final], 16)
    if refdir:
        path = os.path.join(refdir, f"ref-{key}.nc")
        if os.path.exists(path):
            return path, "cached"
        if os.path.exists(path + ".refused"):
            return None, open(path + ".refused").read()
    else:
        path = None
    d = engines.scratch_dir()
    try:
        tmp = os.path.join(d, "ref.nc")
        try:
            with workloads.env_seams(), faults.inline_timeout():
                o, eq, mesh = _build(wl, final)
                mesh.geometry()
                mesh.writeGridfile(tmp)
        except Exception as e:  # noqa: BLE001
            msg = f"{type(e).__name__}: {str(e)[:200]}"
            if path:
                with open(path + ".refused", "w") as f:
                    f.write(msg)
            return None, msg
        if path:
            os.replace(tmp, path)
            return path, "built"
        keep = os.path.join(engines.scratch_dir(), "ref.nc")
        os.replace(tmp, keep)
        return keep, "built"
    finally:
        shutil.rmtree(d, ignore_errors=True)


def run_case(case, refdir=None, keep_log=False):
    """Execute one history and compare with the fresh reference."""
    warnings.simplefilter("ignore")
    wl = case["workload"]
    np_ = wl.get("np", 1)
    d = engines.scratch_dir()
    sim = None
    if np_ > 1:
        ch = core.Choices(given=case["choices"]) if case.get("choices") is not None else \
            core.Choices(rng=random.Random(core.h64(f"regrid/{case.get('sched_seed', 0)}")))
        sim = ProcSim(ch, step_cap=600000, keep_log=keep_log, isolate=core.ISOLATE)
    outcomes = []
    violation = None
    probes = {"refused_then_success": 0, "raised_halfway": 0, "returns_to_earlier": 0,
              "writes_before_final": 0, "fault_fired": 0,
              "write_after_failed_regrid_judged": 0, "refusal_injected": 0,
              "other_mesh_regridded": 0}
    observed = {}
    worst_endpoint = 0.0
    hist_path = os.path.join(d, "hist.nc")
    try:
        with contextlib.ExitStack() as st:
            st.enter_context(workloads.env_seams())
            st.enter_context(faults.inline_timeout())
            if sim is not None:
                st.enter_context(sim.installed())
            try:
                has_fault = any("buggify" in op or "clock" in op for op in case["ops"])
                base, eq, mesh = _build(wl, case["s0"],
                                        refine_timeout=1.0 if has_fault else None)
            except SimAbort as e:
                return _result(case, sim, [["build", "hung"]],
                               {"class": "HUNG:" + e.verdict, "detail": "initial build"},
                               probes, observed, 0.0)
            except Exception as e:  # noqa: BLE001
                return _result(case, sim, [["build", "refused", type(e).__name__]], None,
                               probes, observed, 0.0, status="refused",
                               msg=f"initial build refused: {type(e).__name__}: {e}"[:200])
            pending_failure = False
            seen = [case["s0"]]
            nwrites = 0
            psi_all = None
            for k, op in enumerate(case["ops"]):
                if op["op"] == "other_mesh":
                    outcomes.append(["other_mesh", _other_mesh(op)])
                    probes["other_mesh_regridded"] += 1
                    continue
                if op["op"] == "write":
                    try:
                        mesh.geometry()
                        mesh.writeGridfile(hist_path)
                        outcomes.append(["write", "ok"])
                        nwrites += 1
                        if case.get("check_psi"):
                            # C01: whatever is written must be on-surface - also what is
                            # written after a regrid that raised half-way
                            from .faultsim import opsi

                            p = opsi(gridio.read_grid(hist_path), mesh)
                            p["after"] = outcomes[-2][:2] if len(outcomes) > 1 else ["build"]
                            if outcomes[-2:-1] and outcomes[-2][:2] == ["regrid", "raised"]:
                                probes["write_after_failed_regrid_judged"] += 1
                            if psi_all is None or p["violations"] or (
                                    not psi_all["violations"]
                                    and p["max_resid"] > psi_all["max_resid"]):
                                p["points"] += psi_all["points"] if psi_all else 0
                                psi_all = p
                            else:
                                psi_all["points"] += p["points"]
                        if k < len(case["ops"]) - 1:
                            probes["writes_before_final"] += 1
                    except SimAbort as e:
                        violation = {"class": "HUNG:" + e.verdict, "detail": f"op {k} write"}
                        break
                    except Exception as e:  # noqa: BLE001
                        outcomes.append(["write", "raised", type(e).__name__, str(e)[:120]])
                        if k == len(case["ops"]) - 1:
                            pending_failure = True
                    continue
                if op.get("partial"):
                    # a script passes only the nonorthogonal settings it cares about
                    settings = dict(op["s"])
                else:
                    settings = dict(base, **op["s"])
                settings.update(op.get("junk", {}))
                before = endpoints(mesh)
                if op["s"] in seen[:-1]:
                    probes["returns_to_earlier"] += 1
                try:
                    with contextlib.ExitStack() as fst:
                        bug = clk = None
                        if "buggify" in op:
                            bug = faults.Buggify(op["buggify"])
                            fst.enter_context(bug.installed())
                        if "clock" in op:
                            clk = faults.ClockSim(op["clock"])
                            fst.enter_context(clk.installed())
                        rr = None
                        if op.get("refuse_at"):
                            rr = faults.RegridRefusal(op["refuse_at"])
                            fst.enter_context(rr.installed())
                        try:
                            mesh.redistributePoints(settings)
                            mesh.calculateRZ()
                        finally:
                            if rr is not None and rr.fired:
                                probes["refusal_injected"] += 1
                            if bug is not None and bug.exhausted:
                                probes["fault_fired"] += 1
                            if clk is not None and clk.fired:
                                probes["fault_fired"] += 1
                    outcomes.append(["regrid", "ok"])
                    seen.append(op["s"])
                    if pending_failure:
                        probes["refused_then_success"] += 1
                    pending_failure = False
                    if op.get("expect") == "refused":
                        violation = {"class": "INVALID_ACCEPTED",
                                     "detail": f"op {k}: invalid non-orthogonal settings "
                                               f"{op['s']} were accepted"}
                        break
                    msg, worst = check_endpoints(mesh, before, endpoints(mesh))
                    if worst is not None:
                        worst_endpoint = max(worst_endpoint, worst)
                    if msg:
                        violation = {"class": "ENDPOINT", "detail": f"op {k}: {msg}"}
                        break
                except SimAbort as e:
                    violation = {"class": "HUNG:" + e.verdict, "detail": f"op {k} regrid"}
                    break
                except BaseException as e:  # noqa: BLE001
                    if isinstance(e, (KeyboardInterrupt, core.HarnessError)):
                        raise
                    outcomes.append(["regrid", "raised", type(e).__name__, str(e)[:120]])
                    pending_failure = True
                    if op.get("expect") != "refused":
                        probes["raised_halfway"] += 1
            final_ok = (violation is None and outcomes and outcomes[-1][:2] == ["write", "ok"]
                        and len(outcomes) >= 2 and outcomes[-2][:2] == ["regrid", "ok"])
            psi_resid = psi_all  # every successful write was judged as it happened
            eq = mesh = None
        status = "compared"
        msg = None
        if violation is None and not final_ok:
            status = "refused"
            msg = f"final regrid/write refused: {outcomes[-2:]}"
            if len(outcomes) >= 2 and outcomes[-2][:2] == ["regrid", "ok"]:
                # the final redistribution succeeded but geometry()/write refused the
                # result: if a mesh built from scratch with the same settings generates,
                # the refusal is itself a dependence on the history
                ref_path, how = reference(case, refdir)
                if ref_path is not None:
                    if not refdir:
                        shutil.rmtree(os.path.dirname(ref_path), ignore_errors=True)
                    violation = {"class": "HISTORY_DEPENDENCE",
                                 "detail": "after the history geometry()/writeGridfile() "
                                           f"refuses the mesh ({outcomes[-1][2:]}) while a "
                                           "mesh built from scratch with the final settings "
                                           "generates"}
                    status = "compared"
        elif violation is None:
            ref_path, how = reference(case, refdir)
            if ref_path is None:
                status = "refused"
                msg = f"fresh build with the final settings refused: {how}"
            else:
                bad, observed = gridio.diff_tol(gridio.read_grid(hist_path),
                                                gridio.read_grid(ref_path),
                                                POS_TOL, REL_TOL)
                if not refdir:
                    shutil.rmtree(os.path.dirname(ref_path), ignore_errors=True)
                if bad:
                    violation = {"class": "HISTORY_DEPENDENCE",
                                 "detail": f"{len(bad)} variables differ from the mesh built "
                                           f"from scratch with the final settings, e.g. "
                                           f"{bad[:3]}"}
        out = _result(case, sim, outcomes, violation, probes, observed, worst_endpoint,
                      status=status, msg=msg)
        out["psi"] = psi_resid
        return out
    finally:
        shutil.rmtree(d, ignore_errors=True)


def _result(case, sim, outcomes, violation, probes, observed, worst_endpoint,
            status="compared", msg=None):
    out = {"engine": "c15-regrid", "case": dict(case), "outcomes": outcomes,
           "violation": violation, "probes": probes, "status": status, "msg": msg,
           "observed_max_rel": max(observed.values()) if observed else None,
           "observed_worst": sorted(observed.items(), key=lambda kv: -kv[1])[:3],
           "worst_endpoint_move": worst_endpoint, "event_log_digest": None}
    if sim is not None:
        if sim.harness_error is not None:
            raise core.HarnessError(str(sim.harness_error))
        out["event_log_digest"] = sim.log.digest()
        out["case"]["choices"] = sim.choices.trace
        out["steps"] = sim.steps
        out["sim_time_us"] = sim.now
    return out


def shape_of(case):
    """Op-sequence shape: the measure of distinct histories."""
    sig = []
    for op in case["ops"]:
        if op["op"] == "write":
            sig.append("W")
        elif op["op"] == "other_mesh":
            sig.append("M" + op["geometry"])
        else:
            tag = "R"
            if "junk" in op:
                tag = "J"
            elif op.get("expect") == "refused":
                tag = "B"
            elif op.get("tag") == "outside":
                tag = "O"
            elif "buggify" in op or "clock" in op:
                tag = "F"
            sig.append(tag + core.digest_of(op["s"], 4))
    return (case["workload"]["geometry"], case["workload"]["guards"],
            core.digest_of(case["s0"], 4), tuple(sig))


def _with_psi_verdict(out):
    """C01 judges regrid histories by the O-psi result carried in out["psi"]."""
    psi = out.get("psi")
    if not out.get("violation") and psi and psi.get("violations"):
        out["violation"] = {"class": "OFF_SURFACE", "detail": psi["violations"][0]}
    return out


REPLAYERS = {"c15-regrid": lambda rec: _with_psi_verdict(run_case(rec["case"])),
             "c01-circ-tail": lambda rec: _with_psi_verdict(run_circ_tail(rec["case"]))}


# ------------------------------------------------- circular regrid tails (C01 only)

# graded: from harmless to refused at the first contour, passing through settings that are
# refused in the middle of the region (its first contours already moved, none refined)
CIRC_TAIL_LENGTHS = (1.5, 2.0, 3.0, 5.0, 7.0, 10.0, 20.0)


def make_circ_tail_case(rng):
    o = workloads.circ_options(rng, orthogonal=False)
    o.update({"nx": rng.choice((4, 5, 6)), "ny": rng.choice((6, 8)),
              "nonorthogonal_spacing_method": "poloidal_orthogonal_combined"})
    ops = []
    for _ in range(rng.choice((2, 3, 4))):
        s = {"nonorthogonal_xpoint_poloidal_spacing_length": rng.choice(CIRC_TAIL_LENGTHS),
             "nonorthogonal_xpoint_poloidal_spacing_range": rng.choice((0.05, 0.12, 0.3))}
        if rng.random() < 0.5:
            s["nonorthogonal_xpoint_poloidal_spacing_range_outer"] = rng.choice((0.5, 1.0))
        if rng.random() < 0.3:
            s["nonorthogonal_xpoint_poloidal_spacing_range_inner"] = rng.choice((0.02, 0.5))
        if rng.random() < 0.5:
            # radially graded: benign on the inner contours, excessive further out, so
            # that the refusal comes after some contours of the region have been moved
            s = {"nonorthogonal_xpoint_poloidal_spacing_length":
                 rng.choice((3.0, 5.0, 7.0, 10.0)),
                 "nonorthogonal_xpoint_poloidal_spacing_range":
                 rng.choice((0.05, 0.08, 0.12)),
                 "nonorthogonal_xpoint_poloidal_spacing_range_outer":
                 rng.choice((0.5, 1.0, 2.0))}
            if rng.random() < 0.5:
                s["nonorthogonal_xpoint_poloidal_spacing_range_inner"] = \
                    rng.choice((0.02, 0.05))
        if rng.random() < 0.4:
            # ... or a refusal at a contour the simulator chooses (faults.RegridRefusal)
            s = {"nonorthogonal_xpoint_poloidal_spacing_length": rng.choice((0.8, 1.0, 1.5)),
                 "nonorthogonal_xpoint_poloidal_spacing_range": rng.choice((0.05, 0.1)),
                 "refuse_at": rng.choice((2, 3, 4, 5, 7, 9))}
        ops.append(s)
    return {"workload": {"geometry": "circ"}, "options": o, "ops": ops, "check_psi": True}


def run_circ_tail(case):
    """Circular non-orthogonal mesh; each op is redistributePoints(+calculateRZ) as the
    GUI does it - a ValueError is dismissed - followed by geometry() + writeGridfile();
    every file that gets written is judged by O-psi.  (Circular meshes have no targets,
    so C15 says nothing about them; C01 does.)"""
    from .faultsim import opsi

    warnings.simplefilter("ignore")
    d = engines.scratch_dir()
    outcomes = []
    psi_all = None
    judged_after_failure = 0
    watch = faults.Buggify({"arm": {}})  # passive: counts natural method failures
    try:
        with workloads.env_seams(), faults.inline_timeout(), watch.installed():
            try:
                eq, mesh = workloads.build_circular(case["options"])
                mesh.calculateRZ()
            except Exception as e:  # noqa: BLE001
                return {"engine": "c01-circ-tail", "case": case, "status": "refused",
                        "outcomes": [["build", "refused", type(e).__name__]], "psi": None,
                        "violation": None, "probes": {}}
            for k, s in enumerate(case["ops"]):
                try:
                    s = dict(s)
                    rr = faults.RegridRefusal(s.pop("refuse_at", 0))
                    with rr.installed():
                        mesh.redistributePoints(dict(case["options"], **s))
                        mesh.calculateRZ()
                    outcomes.append(["regrid", "ok"])
                except Exception as e:  # noqa: BLE001
                    if isinstance(e, (KeyboardInterrupt, core.HarnessError)):
                        raise
                    outcomes.append(["regrid", "raised", type(e).__name__])
                path = os.path.join(d, f"g{k}.nc")
                try:
                    mesh.geometry()
                    mesh.writeGridfile(path)
                except Exception as e:  # noqa: BLE001
                    if isinstance(e, (KeyboardInterrupt, core.HarnessError)):
                        raise
                    outcomes.append(["write", "raised", type(e).__name__])
                    continue
                outcomes.append(["write", "ok"])
                p = opsi(gridio.read_grid(path), mesh,
                         newton_gave_way=bool(watch.natural_fail.get("newton")))
                p["after"] = outcomes[-2][:2]
                if outcomes[-2][1] == "raised":
                    judged_after_failure += 1
                if psi_all is None or p["violations"] or (
                        not psi_all["violations"] and p["max_resid"] > psi_all["max_resid"]):
                    p["points"] += psi_all["points"] if psi_all else 0
                    psi_all = p
                else:
                    psi_all["points"] += p["points"]
            eq = mesh = None
        return {"engine": "c01-circ-tail", "case": case,
                "status": "compared" if psi_all else "refused", "outcomes": outcomes,
                "psi": psi_all, "violation": None,
                "probes": {"write_after_failed_regrid_judged": judged_after_failure}}
    finally:
        shutil.rmtree(d, ignore_errors=True)
