"""faultsim (C12, C01): whole generation runs through the public entry points under one
fault plan; outcome classification RAISED / RETURNED(valid?) / HUNG.

Fault kinds (DESIGN.md section 5, C12): none, in_trunc, in_eio, in_missing, out_err,
refine, timeout, worker, git, opt_unknown, opt_invalid, opt_inconsistent, envelope.
"""

import contextlib
import errno
import io
import os
import random
import shutil
import warnings

import numpy as np

from . import cli, core, engines, faults, gridio, gridsim, validity, workloads

# ---------------------------------------------------------------------------- SimOpen


class SimFile:
    """In-memory text file with injected faults (the file object handed to the parsers)."""

    def __init__(self, name, text, eio_at=None, counter=None):
        self.name = name
        self._buf = io.StringIO(text)
        self._eio_at = eio_at
        self._counter = counter if counter is not None else [0]
        self.closed = False

    def _tick(self):
        self._counter[0] += 1
        if self._eio_at is not None and self._counter[0] >= self._eio_at:
            raise OSError(errno.EIO, "Input/output error (injected)", self.name)

    def readline(self, *a):
        self._tick()
        return self._buf.readline(*a)

    def read(self, *a):
        self._tick()
        return self._buf.read(*a)

    def readlines(self):
        self._tick()
        return self._buf.readlines()

    def seek(self, *a):
        self._tick()
        return self._buf.seek(*a)

    def tell(self):
        return self._buf.tell()

    def __iter__(self):
        return self

    def __next__(self):
        self._tick()
        line = self._buf.readline()
        if line == "":
            raise StopIteration
        return line

    def close(self):
        self.closed = True

    def __enter__(self):
        return self

    def __exit__(self, *a):
        self.close()
        return False


class SimOpen:
    """Replacement for the module-global `open` of a script: paths it knows are served
    from memory (with faults); everything else goes to the real open."""

    def __init__(self, files, fault=None):
        self.files = dict(files)
        self.fault = fault or {}
        self.reads = [0]
        self.opened = []
        self.fired = 0

    def __call__(self, path, mode="r", *a, **kw):
        key = os.path.basename(str(path))
        if key not in self.files or "w" in mode or "x" in mode or "a" in mode:
            return open(path, mode, *a, **kw)
        f = self.fault
        self.opened.append(key)
        if f.get("kind") == "in_missing" and f.get("path") == key:
            self.fired += 1
            raise FileNotFoundError(errno.ENOENT, "No such file or directory (injected)",
                                    str(path))
        text = self.files[key]
        eio_at = None
        if f.get("path") == key:
            if f.get("kind") == "in_trunc":
                text = text[: f["at"]]
                self.fired += 1
            elif f.get("kind") == "in_eio":
                eio_at = f["nth"]
                self.fired += 1
        return SimFile(str(path), text, eio_at, self.reads)

    @contextlib.contextmanager
    def installed(self, modules):
        saved = []
        for m in modules:
            saved.append((m, m.__dict__.get("open", None), "open" in m.__dict__))
            m.open = self
        try:
            yield self
        finally:
            for m, old, had in saved:
                if had:
                    m.open = old
                else:
                    del m.open


# ---------------------------------------------------------------------------- DataFile


class DataFileFaults:
    """Proxy class put in place of boututils.datafile.DataFile (imported inside
    writeGridfile at call time).  Counts write / write_file_attribute / close calls and
    raises OSError at the k-th one."""

    def __init__(self, fail_at=None, err=errno.ENOSPC, swallow=False):
        self.fail_at = fail_at
        self.err = err
        self.calls = 0
        self.fired = 0
        self.by_kind = {"write": 0, "write_file_attribute": 0, "close": 0}

    def _tick(self, kind):
        self.calls += 1
        self.by_kind[kind] += 1
        if self.fail_at is not None and self.calls == self.fail_at:
            self.fired += 1
            raise OSError(self.err, os.strerror(self.err) + " (injected)")

    @contextlib.contextmanager
    def installed(self):
        import boututils.datafile as bdf

        real = bdf.DataFile
        inj = self

        class DataFileProxy:
            def __init__(self, *a, **kw):
                self._real = real(*a, **kw)

            def write(self, *a, **kw):
                inj._tick("write")
                return self._real.write(*a, **kw)

            def write_file_attribute(self, *a, **kw):
                inj._tick("write_file_attribute")
                return self._real.write_file_attribute(*a, **kw)

            def close(self):
                try:
                    inj._tick("close")
                finally:
                    self._real.close()

            def __enter__(self):
                self._real.__enter__()
                return self

            def __exit__(self, et, ev, tb):
                if et is None:
                    try:
                        inj._tick("close")
                    except OSError:
                        self._real.__exit__(et, ev, tb)
                        raise
                return self._real.__exit__(et, ev, tb)

            def __getattr__(self, name):
                return getattr(self._real, name)

        bdf.DataFile = DataFileProxy
        try:
            yield self
        finally:
            bdf.DataFile = real


# ---------------------------------------------------------------------------- git seam


@contextlib.contextmanager
def git_fault(kind):
    """`git describe`/`git diff` subprocess failures and a dirty tree."""
    import hypnotoad.core.mesh as meshmod

    real_gv = meshmod.get_versions
    real_ss = meshmod.shell_safe
    if kind == "dirty":
        meshmod.get_versions = lambda: {"version": "0+hsim.dirty", "dirty": True,
                                        "full-revisionid": "1" * 40, "error": None,
                                        "date": None}
        meshmod.shell_safe = lambda *a, **k: (0, "diff --git a/x b/x\n+injected\n")
    elif kind == "diff_fails":
        meshmod.get_versions = lambda: {"version": "0+hsim.dirty", "dirty": True,
                                        "full-revisionid": "1" * 40, "error": None,
                                        "date": None}

        def boom(*a, **k):
            raise RuntimeError("git diff failed (injected)")

        meshmod.shell_safe = boom
    elif kind == "no_git":
        meshmod.get_versions = lambda: {"version": "0+unknown", "dirty": None,
                                        "full-revisionid": None,
                                        "error": "unable to compute version", "date": None}
    try:
        yield
    finally:
        meshmod.get_versions = real_gv
        meshmod.shell_safe = real_ss


# ---------------------------------------------------------------------------- cases

OPT_INVALID = [
    {"nx_core": -2}, {"nx_core": 2.5}, {"finecontour_Nfine": "many"},
    {"refine_methods": "magic"}, {"y_boundary_guards": -1}, {"psinorm_core": 1.5},
    {"number_of_processors": 0}, {"curvature_type": "flat"},
    {"psi_interpolation_method": "cubic-ish"}, {"xpoint_poloidal_spacing_length": -0.1},
    {"finecontour_overdamping_factor": 1.5}, {"orthogonal": "maybe"},
    # not-a-number, wrong sign, wrong type: each is refused by the option's own
    # value_type / check_all on the unchanged tree
    {"refine_atol": float("nan")}, {"xpoint_poloidal_spacing_length": float("nan")},
    {"finecontour_atol": float("nan")}, {"geometry_rtol": float("nan")},
    {"psi_spacing_separatrix_multiplier": float("nan")},
    {"target_all_poloidal_spacing_length": float("nan")}, {"orthogonal": 1},
    {"refine_timeout": -1.0}, {"finecontour_Nfine": 0},
    {"follow_perpendicular_rtol": -1e-8}, {"xpoint_offset": 1.5},
    {"number_of_processors": -2}, {"refine_methods": ["newton", "nonsense"]},
]
# keys that no options factory defines and that the scripts do not read themselves
# (grid_file / plot_* ARE read by hypnotoad-geqdsk and are therefore not "unknown")
OPT_UNKNOWN = [{"nx_cor": 4}, {"target_poloidal_spacing_length": 1}, {"Orthogonal": True},
               {"finecontour_nfine": 50}, {"y_boundary_guard": 1}, {"psinorm_edge": 1.1}]
# options of the other geometry: unknown to this entry point (a realistic slip: `ny` in a
# tokamak file), and known to code that an earlier run in the same interpreter executed
OPT_UNKNOWN_OTHER = {"geqdsk": [{"ny": 8}, {"nx": 4}, {"r_inner": 0.1}, {"R0": 1.0},
                                {"q_coefficients": [2.5]}],
                     "circular": [{"nx_core": 3}, {"psinorm_sol": 1.1}, {"ny_sol": 8},
                                  {"psinorm_core": 0.8}, {"reverse_current": True}]}


def known_to_entry(entry, names):
    """Are all `names` options that this entry point's factories define?  (Guard for the
    opt_unknown oracle: `xpoint_poloidal_spacing_length` was once listed as a tokamak-only
    name; it is a base-class option that the circular case accepts rightly.)"""
    from hypnotoad.core.mesh import BoutMesh

    if entry == "geqdsk":
        from hypnotoad.cases.tokamak import TokamakEquilibrium as Eq
    else:
        from hypnotoad.cases.circular import CircularEquilibrium as Eq
    known = set(Eq.user_options_factory.defaults) | \
        set(Eq.nonorthogonal_options_factory.defaults) | set(BoutMesh.user_options_factory.defaults)
    return all(n in known for n in names)
# an equilibrium option changed between building the equilibrium and building the mesh:
# differences of every size count, from a flipped bool down to the last digits of a tiny
# tolerance (a comparison "to within rounding" must not equate 1e-12 with 1e-13)
OPT_INCONSISTENT = [{"psinorm_sol": 1.1}, {"nx_core": 4}, {"orthogonal": False},
                    {"finecontour_Nfine": 50}, {"refine_atol": 1e-7},
                    {"xpoint_poloidal_spacing_length": 0.07},
                    {"finecontour_atol": 1e-13}, {"sfunc_checktol": 1e-9},
                    {"refine_atol": 2.0000001e-8}, {"refine_width": 1.00000001e-5},
                    {"psi_spacing_separatrix_multiplier": 0.5000001},
                    {"finecontour_overdamping_factor": 0.80000001},
                    {"y_boundary_guards": 2}, {"refine_methods": ["integrate+newton"]},
                    {"refine_timeout": None}]
ENVELOPE = [
    {"nx_core": 1, "nx_sol": 1}, {"ny_sol": 2}, {"ny_inner_divertor": 1},
    {"psinorm_sol": 1.9}, {"psinorm_core": 0.05}, {"psinorm_pf": 0.3},
    {"xpoint_poloidal_spacing_length": 5.0}, {"target_all_poloidal_spacing_length": 1e-4},
    {"finecontour_Nfine": 3}, {"finecontour_maxits": 1}, {"refine_width": 10.0},
    {"xpoint_offset": 0.9}, {"psi_spacing_separatrix_multiplier": 1e-3},
    {"follow_perpendicular_rtol": 1e-3, "follow_perpendicular_atol": 1e-3},
    {"refine_atol": 1e-30}, {"y_boundary_guards": 5},
]

KINDS = ("none", "in_trunc", "in_eio", "in_missing", "out_err", "refine", "timeout",
         "worker", "git", "opt_unknown", "opt_invalid", "opt_inconsistent", "envelope",
         "in_corrupt", "opt_combo")

# opt_combo: no fault, but documented options in combination.  The fragments are all
# legal on their own; a combination may be refused (several are: bxkappa, shiftedmetric
# False, x-y derivative curvature on a non-orthogonal grid) but what is written must be
# valid.  Case i of the kind uses pair i of the 15 pairs, sometimes with a third.
COMBO = ("nonorth", "smoothnl", "curv", "guards", "workers", "interp", "revcur",
         "dn_connected")
COMBO_PAIRS = [(a, b) for ia, a in enumerate(COMBO) for b in COMBO[ia + 1:]]


def apply_combo(rng, case, frags):
    o = case["options"]
    circ = case["entry"] in ("circular", "api-circ")
    for fr in frags:
        if fr == "nonorth":
            o["orthogonal"] = False
            if circ:
                o.update({"ny": rng.choice((6, 8)),
                          "nonorthogonal_spacing_method": "poloidal_orthogonal_combined",
                          "nonorthogonal_xpoint_poloidal_spacing_length":
                              rng.choice((0.8, 1.0)),
                          "nonorthogonal_xpoint_poloidal_spacing_range": 0.05})
                if "curv" not in frags:
                    o.pop("curvature_type", None)
            elif case["geometry"] in ("lsn", "usn"):
                # the example's orthogonal spacings are refused for non-orthogonal
                # single nulls; hypnotoad's own defaults generate
                o.pop("target_all_poloidal_spacing_length", None)
                o.pop("xpoint_poloidal_spacing_length", None)
        elif fr == "smoothnl":
            o["curvature_smoothing"] = "smoothnl"
        elif fr == "curv":
            o["curvature_type"] = rng.choice(("curl(b/B)", "curl(b/B) with x-y derivatives",
                                              "bxkappa"))
        elif fr == "guards":
            o["y_boundary_guards"] = rng.choice((0, 2, 3))
        elif fr == "workers":
            case["np"] = rng.choice((2, 3))
        elif fr == "interp" and not circ:
            o["psi_interpolation_method"] = "dct"
        elif fr == "revcur" and not circ:
            o["reverse_current"] = True
        elif fr == "dn_connected" and not circ:
            # a slightly disconnected double null gridded as a connected one (the
            # default nx_inter_sep): supported when the second X-point is close enough,
            # refused otherwise
            o["nx_inter_sep"] = 0
            o["nx_sol"] = rng.choice((1, 2, 2, 3))  # calibrated: 1-2 mostly generate
            if "revcur" in frags:
                # with 3 the second X-point lies outside the first SOL surface and the
                # request is refused: the guard that a sign option must not disturb
                o["nx_sol"] = 3
    return case

# a damaged stored input: one numeric field of the geqdsk text replaced by what equilibrium
# codes and failing disks put there (the property asks for raise-or-valid, nothing more)
CORRUPTIONS = ("NaN", "Infinity", "****************", "flip_digit", "drop_char", "-NaN",
               "0.000000000E+00")
GEQDSK_BLOCKS = ("header", "fpol", "pres", "ffprime", "pprime", "psi", "qpsi", "limiter")


def corrupt_geqdsk(text, block, what, frac):
    """Replace one 16-character numeric field inside the named block."""
    import re

    lines = text.split("\n")
    n = len(re.findall(r"\d+", lines[0])[-2:]) and int(lines[0].split()[-2])
    ny = int(lines[0].split()[-1])
    body = "\n".join(lines[1:])
    fields = [(m.start(), m.end()) for m in
              re.finditer(r"[ +\-]?\d+\.\d+[Ee][+\-]\d\d", body)]
    sizes = [("header", 20), ("fpol", n), ("pres", n), ("ffprime", n), ("pprime", n),
             ("psi", n * ny), ("qpsi", n)]
    start = 0
    ranges = {}
    for name, size in sizes:
        ranges[name] = (start, start + size)
        start += size
    ranges["limiter"] = (start, len(fields))
    lo, hi = ranges[block]
    hi = min(hi, len(fields))
    if hi <= lo:
        return text
    k = lo + int(frac * (hi - lo))
    a, b = fields[min(k, len(fields) - 1)]
    old = body[a:b]
    if what == "flip_digit":
        i = next(j for j, ch in enumerate(old) if ch.isdigit())
        new = old[:i] + ("7" if old[i] != "7" else "3") + old[i + 1:]
    elif what == "drop_char":
        new = old[:-1]
    else:
        new = what.rjust(len(old))[-len(old):] if len(what) <= len(old) else what
    return lines[0] + "\n" + body[:a] + new + body[b:]



def torpex_case(rng, key):
    """hypnotoad-torpex under a fault plan (thorough tier; 55-80 s per run).  The script
    catches exceptions from geometry(), prints them and goes on to writeGridfile()."""
    kind = rng.choice(("none", "refine", "timeout", "out_err", "refine"))
    case = {"entry": "torpex", "geometry": None, "options": {}, "kind": kind, "np": 1,
            "wall": None, "fault": {}, "sched_seed": key % 10**9,
            "torpex_yaml": rng.choice(("torpex-coils.yaml", "torpex-coils-nonorth.yaml"))}
    f = case["fault"]
    if kind == "refine":
        f.update({"buggify": {"mode": "content", "key": key,
                              "arm": {"newton": 1.0,
                                      "integrate": rng.choice((1e-4, 1e-3, 1e-2))}},
                  "clock": None, "sub": "exhaust"})
    elif kind == "timeout":
        f.update({"buggify": None, "sub": "timeout",
                  "clock": {"key": key, "slowness": 1.0,
                            "slow_prob": rng.choice((1e-4, 1e-3))}})
    elif kind == "out_err":
        f.update({"k": rng.randrange(1, 150), "err": "ENOSPC"})
    return case


def combo_case(rng, key, i):
    """Case i of the opt_combo kind: pair i of COMBO_PAIRS (+ a third fragment at times),
    circular geometry two times in three (cheap), single nulls otherwise."""
    entry = ("circular", "api-circ", "geqdsk", "api-circ", "circular", "api-tok")[
        (i + i // len(COMBO_PAIRS)) % 6]
    case = make_case(rng, key, kind="opt_combo", entry=entry,
                     geom=rng.choice(("lsn", "usn", "lsn", "cdn")))
    frags = list(COMBO_PAIRS[i % len(COMBO_PAIRS)])
    if rng.random() < 0.3:
        extra = rng.choice(COMBO)
        if extra not in frags:
            frags.append(extra)
    if ("revcur" in frags or "dn_connected" in frags) and case["geometry"] is None:
        case["entry"] = ("geqdsk", "api-tok")[i % 2]
        case["geometry"] = rng.choice(("lsn", "cdn", "usn"))
        case["options"] = workloads.tok_options(case["geometry"],
                                                y_boundary_guards=rng.choice((0, 1)))
    if "dn_connected" in frags:
        case["geometry"] = rng.choice(("udn", "ldn", "udn2"))
        case["options"] = workloads.tok_options(case["geometry"],
                                                y_boundary_guards=rng.choice((0, 1)))
    if "interp" in frags and case["geometry"] not in (None, "lsn", "usn"):
        if "dn_connected" in frags:
            frags.remove("interp")  # the double nulls of this workload are refused with dct
        else:
            case["geometry"] = "lsn"
            case["options"] = workloads.tok_options("lsn",
                                                    y_boundary_guards=rng.choice((0, 1)))
    case["fault"]["combo"] = frags
    return apply_combo(rng, case, frags)


def make_case(rng, key, kind=None, entry=None, geom=None):
    kind = kind or rng.choice(KINDS)
    if entry is None:
        if kind == "in_corrupt":
            entry = "geqdsk"
        elif kind in ("in_trunc", "in_eio", "in_missing", "opt_unknown"):
            entry = rng.choice(("geqdsk", "geqdsk", "circular"))
        elif kind == "opt_inconsistent":
            entry = rng.choice(("api-tok", "api-circ"))
        else:
            entry = rng.choice(("geqdsk", "circular", "api-tok", "api-circ"))
    geom = geom or rng.choice(("lsn", "lsn", "usn", "cdn", "udn", "ldn"))
    if entry in ("circular", "api-circ"):
        options = workloads.circ_options(rng, orthogonal=True)
        geom = None
    else:
        options = workloads.tok_options(geom, y_boundary_guards=rng.choice((0, 1)))
    case = {"entry": entry, "geometry": geom, "options": options, "kind": kind, "np": 1,
            "wall": rng.choice(("rect", "slanted")), "fault": {}, "sched_seed": key % 10**9}
    f = case["fault"]
    if kind == "in_trunc":
        f.update({"which": rng.choice(("geqdsk", "yaml")) if entry == "geqdsk" else "yaml",
                  "frac": rng.random(), "mode": rng.choice(("line", "midnumber", "byte"))})
    elif kind == "in_corrupt":
        f.update({"block": rng.choice(GEQDSK_BLOCKS), "what": rng.choice(CORRUPTIONS),
                  "frac": rng.random()})
    elif kind == "in_eio":
        f.update({"which": "geqdsk" if entry == "geqdsk" else "yaml",
                  "nth": rng.choice((1, 2, 3, 5, 20, 200, 800, 1200))})
    elif kind == "in_missing":
        f.update({"which": rng.choice(("geqdsk", "yaml")) if entry == "geqdsk" else "yaml"})
    elif kind == "out_err":
        f.update({"k": rng.randrange(1, 165), "err": rng.choice(("ENOSPC", "EIO"))})
    elif kind in ("refine", "timeout", "worker"):
        from .scenarios import fault_plan

        sub = {"refine": rng.choice(("fallback", "exhaust")), "timeout": "timeout",
               "worker": rng.choice(("exhaust", "timeout", "fallback"))}[kind]
        _, bug, clk, opts = fault_plan(rng, key, kind=sub)
        case["options"].update(opts)
        f.update({"buggify": bug, "clock": clk, "sub": sub})
        if kind == "worker":
            case["np"] = rng.choice((2, 3))
    elif kind == "git":
        f.update({"git": rng.choice(("dirty", "diff_fails", "no_git"))})
    elif kind == "opt_combo":
        pass  # the fragments are chosen by the caller's stratification (combo_case)
    elif kind == "opt_unknown":
        f.update({"extra": dict(rng.choice(OPT_UNKNOWN))})
        if rng.random() < 0.6:
            f.update({"extra": dict(rng.choice(OPT_UNKNOWN_OTHER[entry]))})
            # ... after a valid run of the other entry point in the same interpreter
            f["prelude"] = rng.choice((True, True, False))
    elif kind == "opt_invalid":
        bad = dict(rng.choice(OPT_INVALID))
        if entry in ("circular", "api-circ"):
            bad = {k: v for k, v in bad.items()
                   if k not in ("nx_core", "psinorm_core", "xpoint_poloidal_spacing_length",
                                "psi_spacing_separatrix_multiplier",
                                "target_all_poloidal_spacing_length", "xpoint_offset")} \
                or {"nx": -1}
        f.update({"extra": bad})
    elif kind == "opt_inconsistent":
        ch = dict(rng.choice(OPT_INCONSISTENT))
        if entry == "api-circ":
            ch = dict(rng.choice(({"orthogonal": False}, {"finecontour_Nfine": 51},
                                  {"refine_atol": 1e-7}, {"finecontour_atol": 1e-13},
                                  {"sfunc_checktol": 1e-9}, {"refine_atol": 2.0000001e-8},
                                  {"refine_width": 1.00000001e-5},
                                  {"finecontour_overdamping_factor": 0.80000001},
                                  {"refine_timeout": None})))
        f.update({"changed": ch})
    elif kind == "envelope":
        env = dict(rng.choice(ENVELOPE))
        if entry in ("circular", "api-circ"):
            env = dict(rng.choice(({"nx": 1}, {"ny": 2}, {"ny": 3}, {"r_inner": 0.29},
                                   {"finecontour_Nfine": 3}, {"finecontour_maxits": 1},
                                   {"refine_width": 10.0}, {"y_boundary_guards": 5},
                                   {"r_outer": 0.95}, {"q_coefficients": [1e-3]})))
        f.update({"extra": env})
    return case


def _trunc_at(text, frac, mode):
    b = int(len(text) * frac)
    if mode == "line":
        nl = text.rfind("\n", 0, b)
        return nl + 1 if nl >= 0 else 0
    if mode == "midnumber":
        # cut inside a number: step back to a digit that has a digit before it
        while b > 2 and not (text[b - 1].isdigit() and text[b - 2].isdigit()):
            b -= 1
        return b
    return b


def run_case(case, keep_log=False):
    """Execute one generation run under its fault plan; classify the outcome."""
    import yaml

    warnings.simplefilter("ignore")
    entry = case["entry"]
    kind = case["kind"]
    f = case["fault"]
    options = dict(case["options"])
    np_ = case.get("np", 1)
    if np_ > 1:
        options["number_of_processors"] = np_
    if kind in ("opt_unknown", "opt_invalid", "envelope"):
        options.update(f["extra"])
    counters = {}
    if f.get("prelude"):
        other = "circular" if entry == "geqdsk" else "geqdsk"
        pre = make_case(random.Random(case["sched_seed"]), case["sched_seed"], kind="none",
                        entry=other, geom="lsn")
        counters["prelude"] = run_case(pre)["outcome"][0]
    d = engines.scratch_dir()
    try:
        seams = []
        bug = faults.Buggify(f["buggify"]) if f.get("buggify") else None
        if bug is None and case.get("check_psi"):
            bug = faults.Buggify({"arm": {}})  # passive: counts natural method failures
        clk = faults.ClockSim(f["clock"]) if f.get("clock") else None
        if bug is not None:
            seams.append(bug.installed())
        dff = None
        if kind == "out_err":
            dff = DataFileFaults(f["k"], getattr(errno, f["err"]))
        else:
            dff = DataFileFaults(None)
        seams.append(dff.installed())
        if kind == "git":
            seams.append(git_fault(f["git"]))
        cap = MeshCapture()
        seams.append(cap.installed())
        choices = core.Choices(given=case["choices"]) if case.get("choices") is not None \
            else core.Choices(rng=random.Random(core.h64(f"fs/{case['sched_seed']}")))
        grid_path = os.path.join(d, "bout.grd.nc")
        simopen = None
        if entry == "torpex":
            import sys as _sys

            deps = os.path.join(core.VERIF, ".deps")
            if deps not in _sys.path:
                _sys.path.append(deps)
            try:
                import sympy  # noqa: F401
            except ImportError:
                return {"engine": "c12-fault", "case": dict(case), "outcome":
                        ["not_run", None, "sympy is not installed"], "problems": None,
                        "violation": None, "counters": {}, "psi": None,
                        "event_log_digest": None}
            from hypnotoad.scripts import hypnotoad_torpex

            shutil.copy(os.path.join(core.REPO, "examples", "torpex-xpoint",
                                     case.get("torpex_yaml", "torpex-coils.yaml")),
                        os.path.join(d, "torpex.yaml"))
            grid_path = os.path.join(d, "torpex.grd.nc")
            res = cli.run_entry(hypnotoad_torpex.main,
                                ["hypnotoad-torpex", "torpex.yaml", "--noplot"], d,
                                choices=choices, seams=seams, clock=clk, keep_log=keep_log)
        elif entry in ("geqdsk", "circular"):
            files = {"in.yaml": yaml.safe_dump(options)}
            if entry == "geqdsk":
                arrs = workloads.tokamak_arrays(case["geometry"], wall=case["wall"])
                with workloads.env_seams():
                    files["in.geqdsk"] = workloads.geqdsk_text(arrs)
            fault = {}
            if kind == "in_corrupt":
                files["in.geqdsk"] = corrupt_geqdsk(files["in.geqdsk"], f["block"],
                                                    f["what"], f["frac"])
                counters["in_corrupt_fired"] = 1
            if kind in ("in_trunc", "in_eio", "in_missing"):
                name = "in.geqdsk" if f["which"] == "geqdsk" else "in.yaml"
                fault = {"kind": kind, "path": name}
                if kind == "in_trunc":
                    fault["at"] = _trunc_at(files[name], f["frac"], f["mode"])
                if kind == "in_eio":
                    fault["nth"] = f["nth"]
            simopen = SimOpen(files, fault)
            if entry == "geqdsk":
                from hypnotoad.scripts import hypnotoad_geqdsk as mod

                argv = ["hypnotoad-geqdsk", "in.geqdsk", "in.yaml"]
                main = mod.main
            else:
                from hypnotoad.scripts import hypnotoad_circular as mod

                argv = ["hypnotoad-circular", "in.yaml"]
                main = mod.main
            seams.append(simopen.installed([mod]))
            res = cli.run_entry(main, argv, d, np_=np_, choices=choices, seams=seams,
                                clock=clk, keep_log=keep_log)
        else:
            res = _run_api(case, options, grid_path, np_, choices, seams, clk, keep_log)
        counters["datafile_calls"] = dff.calls
        counters["out_err_fired"] = dff.fired
        if simopen is not None:
            counters["in_fault_fired"] = simopen.fired
            counters["read_calls"] = simopen.reads[0]
        if bug is not None:
            counters["buggify"] = bug.counters()
        if clk is not None:
            counters["clock"] = clk.counters()
        problems = None
        psi_resid = None
        if case.get("_copy_grid_to") and os.path.exists(grid_path):
            shutil.copy(grid_path, case["_copy_grid_to"])
        if res["outcome"] == "returned":
            if not os.path.exists(grid_path):
                problems = ["entry point returned but no grid file was written"]
            else:
                g = gridio.read_grid(grid_path)
                tok = entry in ("geqdsk", "api-tok")
                ntg = None
                if entry == "torpex":
                    ntg = 4
                elif tok:
                    ntg = 2 if case["geometry"] in ("lsn", "usn") else 4
                elif not options.get("limiter"):
                    ntg = 0
                problems = validity.check_grid(g, tokamak=tok, geqdsk=(entry == "geqdsk"),
                                               n_targets=ntg)
                if case.get("check_psi") and not problems and cap.mesh is not None:
                    bc = bug.counters() if bug is not None else {}
                    newton_gave_way = bool(bc.get("fired", {}).get("newton")) or \
                        bool(bc.get("natural_fail", {}).get("newton"))
                    psi_resid = opsi(g, cap.mesh, newton_gave_way=newton_gave_way)
        cap.mesh = None
        violation = classify(case, res, problems, counters)
        # A failure that the documented contract turns into an exception (chain exhausted
        # -> SolutionError, deadline passed -> FunctionTimedOut) was raised inside
        # hypnotoad, yet generation returned normally: that is only acceptable if the
        # failure was genuinely harmless, i.e. the grid equals the fault-free grid of the
        # same inputs to the refinement tolerance.  Otherwise a grid computed from
        # partial / unrefined data was written without a trace.
        absorbed = (counters.get("clock") or {}).get("timeout_fired", 0) + \
            (counters.get("buggify") or {}).get("exhausted", 0)
        if violation is None and res["outcome"] == "returned" and absorbed \
                and not case.get("_reference_run"):
            ref_case = dict(case, kind="none", fault={}, np=1, _reference_run=True,
                            choices=None, check_psi=False)
            ref_case["options"] = {k: v for k, v in case["options"].items()
                                   if k != "refine_timeout"}
            ref_grid = os.path.join(d, "ref.nc")
            ref_case["_copy_grid_to"] = ref_grid
            ref = run_case(ref_case)["outcome"][0]
            counters["absorbed_failures"] = absorbed
            if ref == "returned" and os.path.exists(ref_grid):
                bad, _ = gridio.diff_tol(gridio.read_grid(grid_path),
                                         gridio.read_grid(ref_grid), 1e-6, 1e-5)
                counters["absorbed_compared"] = 1
                if bad:
                    violation = {"class": "FAILURE_SWALLOWED",
                                 "detail": f"{absorbed} internal SolutionError/"
                                           "FunctionTimedOut failures were swallowed and the "
                                           f"grid differs from the fault-free grid: {bad[:3]}"}
        if violation is None and psi_resid is not None and psi_resid["violations"]:
            violation = {"class": "OFF_SURFACE", "detail": psi_resid["violations"][0]}
        return {"engine": "c12-fault", "case": dict(case, choices=res.get("choices")),
                "outcome": [res["outcome"], res["exc"], res.get("msg")],
                "problems": problems, "violation": violation, "counters": counters,
                "psi": psi_resid,
                "event_log_digest": res.get("event_log_digest"),
                "steps": res.get("steps"), "sim_time_us": res.get("sim_time_us")}
    finally:
        shutil.rmtree(d, ignore_errors=True)


def _run_api(case, options, grid_path, np_, choices, seams, clk, keep_log):
    """The API path of examples/tokamak/tokamak_example.py (and its circular analogue)."""
    from .procsim import ProcSim, SimAbort

    sim = ProcSim(choices, step_cap=400000, keep_log=keep_log,
                  isolate=core.ISOLATE) if np_ > 1 else None
    res = {"outcome": None, "exc": None, "msg": None}
    with contextlib.ExitStack() as st:
        st.enter_context(workloads.env_seams())
        st.enter_context(clk.installed() if clk is not None else faults.inline_timeout())
        for s in seams:
            st.enter_context(s)
        if sim is not None:
            st.enter_context(sim.installed())
        try:
            if case["entry"] == "api-circ":
                from hypnotoad.cases.circular import CircularEquilibrium
                from hypnotoad.core.mesh import BoutMesh

                eq = CircularEquilibrium(settings=dict(options),
                                         nonorthogonal_settings=dict(options))
                mopts = _inconsistent(case, options, eq, BoutMesh)
                mesh = BoutMesh(eq, mopts)
            else:
                from hypnotoad.cases import tokamak
                from hypnotoad.core.mesh import BoutMesh

                arrs = workloads.tokamak_arrays(case["geometry"], wall=case["wall"])
                eq = tokamak.TokamakEquilibrium(
                    arrs["R1D"], arrs["Z1D"], arrs["psi2D"], arrs["psi1D"], arrs["fpol1D"],
                    pressure=arrs["pressure"], wall=arrs["wall"], settings=dict(options))
                mopts = _inconsistent(case, options, eq, BoutMesh)
                mesh = BoutMesh(eq, mopts)
            mesh.geometry()
            mesh.writeGridfile(grid_path)
            res["outcome"] = "returned"
        except SimAbort as e:
            res.update(outcome="hung", exc=e.verdict)
        except BaseException as e:  # noqa: BLE001
            if isinstance(e, (KeyboardInterrupt, core.HarnessError)):
                raise
            res.update(outcome="raised", exc=type(e).__name__, msg=str(e)[:300])
        if sim is not None and res["outcome"] != "hung":
            eq = mesh = None
            e = None
            try:
                sim.interpreter_exit()
            except SimAbort:
                res.update(outcome="hung", exc="EXIT_HANG")
    import gc

    gc.collect()
    if sim is not None:
        if sim.harness_error is not None:
            raise core.HarnessError(str(sim.harness_error))
        res.update({"steps": sim.steps, "sim_time_us": sim.now,
                    "event_log_digest": sim.log.digest(), "choices": sim.choices.trace})
    return res


def _inconsistent(case, options, eq, BoutMesh):
    """Mesh settings with an equilibrium option changed after the equilibrium was built.
    Only options that both the equilibrium and the mesh define can be inconsistent
    between them; a key the mesh does not know is simply not a mesh option."""
    mopts = dict(options)
    if case["kind"] == "opt_inconsistent":
        ch = {k: v for k, v in case["fault"]["changed"].items()
              if k in eq.user_options and k in BoutMesh.user_options_factory.defaults
              and eq.user_options[k] != v}
        case["fault"]["applied"] = ch
        mopts.update(ch)
    return mopts


def classify(case, res, problems, counters):
    kind = case["kind"]
    if res["outcome"] == "raised" and res["exc"] == "Runaway":
        # two to three orders of magnitude more ODE work than any normal generation of
        # these small workloads, with no deadline in force: for the user this is a hang
        counters["runaway"] = 1
        return {"class": "HUNG:RUNAWAY",
                "detail": f"generation neither returned nor raised under fault kind {kind}: "
                          f"{res.get('msg')}"}
    if res["outcome"] == "hung":
        return {"class": "HUNG", "detail": f"generation neither returned nor raised "
                                           f"({res['exc']}) under fault kind {kind}"}
    if res["outcome"] == "raised":
        return None  # loud refusal: always acceptable (shipped inputs judged elsewhere)
    if problems:
        return {"class": "MALFORMED_GRID",
                "detail": f"returned normally under fault kind {kind} but the grid file is "
                          f"not valid: {problems[:4]}"}
    if kind == "opt_inconsistent" and not case["fault"].get("applied"):
        return None  # the changed key is not shared by equilibrium and mesh: inapplicable
    if kind == "opt_unknown" and known_to_entry(case["entry"], case["fault"]["extra"]):
        return None  # not unknown to this entry point after all: nothing to demand
    if kind in ("opt_unknown", "opt_invalid", "opt_inconsistent"):
        what = case["fault"].get("extra") or case["fault"].get("applied")
        return {"class": "BAD_OPTION_ACCEPTED",
                "detail": f"{kind}: {what} was accepted and a grid was written"}
    if kind == "out_err" and counters.get("out_err_fired"):
        return {"class": "WRITE_ERROR_SWALLOWED",
                "detail": f"OSError injected at DataFile call {case['fault']['k']} did not "
                          "reach the caller"}
    return None


# ---------------------------------------------------------------------------- O-psi


class MeshCapture:
    """Keeps a reference to the BoutMesh whose writeGridfile() ran, so that the C01 oracle
    can use the mesh's own interpolant and the regions' radial psi values."""

    def __init__(self):
        self.mesh = None

    @contextlib.contextmanager
    def installed(self):
        from hypnotoad.core.mesh import BoutMesh

        real = BoutMesh.writeGridfile
        cap = self

        def writeGridfile(self, filename):
            cap.mesh = self
            return real(self, filename)

        BoutMesh.writeGridfile = writeGridfile
        try:
            yield self
        finally:
            BoutMesh.writeGridfile = real


def opsi(g, mesh, methods=None, newton_gave_way=True):
    """C01 oracle: every point of the written grid lies on the flux surface of its radial
    index: psi (the mesh's own interpolant) at the positions read back from the grid file
    equals the region's radial psi-grid value and psixy, to within the point-refinement
    tolerance.  Corners pinned to an X-point are the statement's only exception."""
    eq = mesh.equilibrium
    atol = float(mesh.user_options.refine_atol)
    methods = methods or mesh.user_options.refine_methods
    if isinstance(methods, str):
        methods = [methods]
    # Newton's convergence test is |psi - psival| < atol (absolute) with an early exit that
    # is relative, hence 10*atol*max(1,|psi|).  Bare "integrate" is documented as "does not
    # respect atol": when it produced points (Newton gave way, or no Newton/line-search
    # method is configured) the bound is 100 times wider.
    factor = 10.0
    newton_like = [m for m in methods if m in ("newton", "integrate+newton", "line")]
    if not newton_like or (newton_gave_way and "integrate" in methods):
        factor = 1000.0
    out = {"max_resid": 0.0, "violations": [], "tau_factor": factor, "points": 0,
           "max_resid_vs_psixy": 0.0, "pinned_corners": 0}
    locs = (
        ("Rxy", "Zxy", "psixy", 1, False), ("Rxy_ylow", "Zxy_ylow", "psixy_ylow", 1, False),
        ("Rxy_xlow", "Zxy_xlow", "psixy_xlow", 0, False),
        ("Rxy_corners", "Zxy_corners", None, 0, True),
        ("Rxy_lower_right_corners", "Zxy_lower_right_corners", None, 2, True),
        ("Rxy_upper_right_corners", "Zxy_upper_right_corners", None, 2, True),
        ("Rxy_upper_left_corners", "Zxy_upper_left_corners", None, 0, True),
    )
    for rid, region in mesh.regions.items():
        idx = mesh.region_indices[rid]
        pv = np.asarray(region.psi_vals, dtype=float)
        nxr = region.nx
        for rname, zname, pname, off, is_corner in locs:
            R = g[rname][idx]
            Z = g[zname][idx]
            ref = pv[off::2][:nxr][:, None]
            psi_here = np.asarray(eq.psi(R, Z))
            resid = np.abs(psi_here - ref)
            tau = factor * atol * np.maximum(1.0, np.abs(ref))
            mask = np.ones(resid.shape, dtype=bool)
            if is_corner:
                pinned = _xpoint_mask(eq, R, Z)
                out["pinned_corners"] += int(pinned.sum())
                mask &= ~pinned
            out["points"] += int(mask.sum())
            if mask.any():
                out["max_resid"] = max(out["max_resid"],
                                       float(np.max(np.where(mask, resid / tau, 0.0))))
            badm = mask & (resid > tau)
            if np.any(badm) and len(out["violations"]) < 5:
                i, j = np.argwhere(badm)[0]
                out["violations"].append(
                    f"region {region.name} {rname}[{i},{j}] = ({R[i, j]:.6f}, {Z[i, j]:.6f})"
                    f": psi there differs from the radial psi value of index {i} by "
                    f"{resid[i, j]:.3e} > {float(tau[i, 0]):.3e}")
            if pname is not None:
                d = np.abs(g[pname][idx] - ref)
                out["max_resid_vs_psixy"] = max(out["max_resid_vs_psixy"],
                                                float(np.max(d / tau)))
                if np.any(d > tau) and len(out["violations"]) < 5:
                    i, j = np.argwhere(d > tau)[0]
                    out["violations"].append(
                        f"region {region.name} {pname}[{i},{j}] differs from the radial psi "
                        f"value by {d[i, j]:.3e} > {float(tau[i, 0]):.3e}")
    return out


def _xpoint_mask(eq, R, Z):
    m = np.zeros(R.shape, dtype=bool)
    for xp in getattr(eq, "x_points", []) or []:
        m |= (np.abs(R - xp.R) < 1e-12) & (np.abs(Z - xp.Z) < 1e-12)
    return m


def _replay_shipped(rec):
    r = run_shipped(rec["case"])
    want = rec["violation"]["class"]
    v = None
    msg = ((r.get("outcome") or [None, None, ""])[2] or "")
    if want == "SHIPPED_OPTIONS_REJECTED" and r.get("status") == "refused" and \
            "not used" in msg:
        v = {"class": want, "detail": msg}
    elif want == "SHIPPED_REFUSED" and r.get("status") == "refused":
        v = {"class": want, "detail": msg}
    elif want == "MALFORMED_GRID" and r.get("status") == "malformed":
        v = {"class": want, "detail": str(r["problems"][:4])}
    return {"violation": v, "event_log_digest": None, "result": r}


REPLAYERS = {"c12-fault": lambda rec: run_case(rec["case"]),
             "c12-shipped": _replay_shipped}


# ---------------------------------------------------------------------------- shipped


def shipped_cases():
    """Every configuration shipped as an example or reference setting."""
    repo = core.REPO
    out = []
    ex = os.path.join(repo, "examples", "tokamak")
    for geom, yml in (("lsn", "single-null.yaml"), ("usn", "single-null.yaml"),
                      ("cdn", "connected-double-null.yaml"),
                      ("udn", "disconnected-double-null.yaml"),
                      ("ldn", "disconnected-double-null.yaml"),
                      ("udn2", "disconnected-double-null.yaml")):
        out.append({"id": f"examples/tokamak/{yml}:{geom}", "how": "example-api",
                    "geometry": geom, "yaml": os.path.join(ex, yml)})
    for yml, geom in (("geqdsk_cdn.yaml", "cdn"), ("geqdsk_ldn.yaml", "ldn")):
        out.append({"id": yml, "how": "geqdsk-cli", "geometry": geom,
                    "yaml": os.path.join(repo, yml)})
    for yml in ("torpex-coils.yaml", "torpex-coils-nonorth.yaml"):
        out.append({"id": f"examples/torpex-xpoint/{yml}", "how": "torpex-cli",
                    "yaml": os.path.join(repo, "examples", "torpex-xpoint", yml)})
    return out


def run_shipped(case):
    """Fault-free generation of one shipped configuration, exactly the way its README /
    script runs it (tokamak_example.py's API path; hypnotoad-geqdsk; hypnotoad-torpex)."""
    import sys

    import yaml

    warnings.simplefilter("ignore")
    d = engines.scratch_dir()
    try:
        how = case["how"]
        with open(case["yaml"]) as fh:
            ytext = fh.read()
        options = yaml.safe_load(ytext)
        grid = os.path.join(d, "bout.grd.nc")
        tok = True
        ntg = None
        if how == "example-api":
            # examples/tokamak/tokamak_example.py: create_tokamak(nx=65, ny=65), fpol1D=[],
            # wall 0.2 m inside the psi grid, BoutMesh, geometry, writeGridfile
            import importlib.util

            spec = importlib.util.spec_from_file_location(
                "tokamak_example", os.path.join(core.REPO, "examples", "tokamak",
                                                "tokamak_example.py"))
            mod = importlib.util.module_from_spec(spec)
            spec.loader.exec_module(mod)
            r1d, z1d, psi2d, psi1d = mod.create_tokamak(geometry=case["geometry"])
            rmin, rmax = min(r1d) + 0.2, max(r1d) - 0.2
            zmin, zmax = min(z1d) + 0.2, max(z1d) - 0.2
            res = {"outcome": None, "exc": None, "msg": None}
            with workloads.env_seams(), faults.inline_timeout():
                try:
                    from hypnotoad import tokamak
                    from hypnotoad.core.mesh import BoutMesh

                    eq = tokamak.TokamakEquilibrium(
                        r1d, z1d, psi2d, psi1d, fpol1D=[], settings=options,
                        wall=[(rmin, zmin), (rmin, zmax), (rmax, zmax), (rmax, zmin)])
                    mesh = BoutMesh(eq, options)
                    mesh.geometry()
                    mesh.writeGridfile(grid)
                    res["outcome"] = "returned"
                except Exception as e:  # noqa: BLE001
                    res.update(outcome="raised", exc=type(e).__name__, msg=str(e)[:300])
            ntg = 2 if case["geometry"] in ("lsn", "usn") else 4
        elif how == "geqdsk-cli":
            arrs = workloads.tokamak_arrays(case["geometry"])
            with workloads.env_seams():
                text = workloads.geqdsk_text(arrs)
            with open(os.path.join(d, "in.geqdsk"), "w") as fh:
                fh.write(text)
            shutil.copy(case["yaml"], os.path.join(d, "in.yaml"))
            res = cli.run_entry(cli.geqdsk_main(),
                                ["hypnotoad-geqdsk", "in.geqdsk", "in.yaml"], d)
            if isinstance(options, dict) and options.get("grid_file"):
                grid = os.path.join(d, options["grid_file"])
            ntg = 4
        else:
            deps = os.path.join(core.VERIF, ".deps")
            if deps not in sys.path:
                sys.path.append(deps)
            try:
                import sympy  # noqa: F401
            except ImportError:
                return {"id": case["id"], "status": "not_run",
                        "reason": "sympy is not installed (optional dependency of TORPEX)"}
            from hypnotoad.scripts import hypnotoad_torpex

            shutil.copy(case["yaml"], os.path.join(d, "torpex.yaml"))
            res = cli.run_entry(hypnotoad_torpex.main,
                                ["hypnotoad-torpex", "torpex.yaml", "--noplot"], d)
            grid = os.path.join(d, "torpex.grd.nc")
            tok = False
            ntg = 4
        out = {"id": case["id"], "outcome": [res["outcome"], res["exc"], res.get("msg")]}
        if res["outcome"] == "returned":
            if not os.path.exists(grid):
                out["problems"] = ["no grid file written"]
            else:
                out["problems"] = validity.check_grid(
                    gridio.read_grid(grid), tokamak=tok, geqdsk=(how == "geqdsk-cli"),
                    n_targets=ntg)
            out["status"] = "generated" if not out["problems"] else "malformed"
        else:
            out["status"] = "refused"
        return out
    finally:
        shutil.rmtree(d, ignore_errors=True)
