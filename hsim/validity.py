"""Validity predicate V for a written grid file (C12) and the on-surface oracle O-psi
(C01).  Both judge only what the properties' statements say."""

import numpy as np

LOCS = ("", "_xlow", "_ylow")
FIELDS_3LOC = (
    "Rxy", "Zxy", "dx", "dy", "psixy", "Brxy", "Bzxy", "Bpxy", "Btxy", "Bxy",
    "poloidal_distance", "zShift", "ShiftTorsion", "hy", "dphidy", "J",
    "g11", "g22", "g33", "g12", "g13", "g23", "g_11", "g_22", "g_33", "g_12", "g_13", "g_23",
    "curl_bOverB_x", "curl_bOverB_y", "curl_bOverB_z", "bxcvx", "bxcvy", "bxcvz",
    "y-coord", "theta", "chi",
)
CORNERS = ("Rxy_corners", "Zxy_corners", "Rxy_lower_right_corners", "Zxy_lower_right_corners",
           "Rxy_upper_right_corners", "Zxy_upper_right_corners", "Rxy_upper_left_corners",
           "Zxy_upper_left_corners")
SCALARS = ("nx", "ny", "y_boundary_guards", "ixseps1", "ixseps2", "jyseps1_1", "jyseps2_1",
           "jyseps1_2", "jyseps2_2", "ny_inner", "Bt_axis")
STRINGS = ("curvature_type", "hypnotoad_inputs", "hypnotoad_inputs_yaml", "Python_version",
           "module_versions")
ATTRS = ("@grid_id", "@hypnotoad_version", "@parallel_transform")
NAN_OK = {"chi", "chi_xlow", "chi_ylow", "ShiftAngle", "total_poloidal_distance"}
POSITIVE = ("hy", "hy_xlow", "hy_ylow", "dy", "dy_xlow", "dy_ylow", "hthe", "hthe_xlow",
            "hthe_ylow")


def check_grid(g, *, tokamak=False, geqdsk=False, orthogonal=None, pressure=None,
               n_targets=None):
    """List of problems (empty = valid) of a grid read with gridio.read_grid."""
    bad = []

    def need(name):
        if name not in g:
            bad.append(f"missing {name}")
            return False
        return True

    for s in SCALARS:
        if need(s):
            v = g[s]
            if not isinstance(v, np.ndarray) or v.shape != () or not np.isfinite(v):
                bad.append(f"{s} is not a finite scalar")
    for s in STRINGS + ATTRS:
        if need(s) and not isinstance(g[s], str):
            bad.append(f"{s} is not a string")
    if tokamak:
        for s in ("psi_axis", "psi_bdry"):
            need(s)
    if geqdsk:
        for s in ("psi_axis_gfile", "psi_bdry_gfile", "hypnotoad_input_geqdsk_file_contents",
                  "@hypnotoad_geqdsk_filename"):
            need(s)
    if bad:
        return bad
    nx, ny, myg = int(g["nx"]), int(g["ny"]), int(g["y_boundary_guards"])
    if "Rxy" not in g or not isinstance(g["Rxy"], np.ndarray) or g["Rxy"].ndim != 2:
        return bad + ["missing or malformed Rxy"]
    ny_total = g["Rxy"].shape[1]
    if n_targets is not None and ny_total != ny + n_targets * myg:
        bad.append(f"ny_total {ny_total} != ny + n_targets*y_boundary_guards "
                   f"({ny}+{n_targets}*{myg})")
    if (ny_total - ny) < 0 or (myg == 0 and ny_total != ny) or \
            (myg > 0 and (ny_total - ny) % myg != 0):
        bad.append(f"ny_total {ny_total} inconsistent with ny {ny}, guards {myg}")
    shape2 = (nx, ny_total)
    names2 = [f + loc for f in FIELDS_3LOC for loc in LOCS] + list(CORNERS) + ["penalty_mask"]
    if orthogonal is None:
        yml = g.get("hypnotoad_inputs_yaml", "")
        orthogonal = "orthogonal: false" not in yml
    if orthogonal:
        names2 += ["hthe" + loc for loc in LOCS]
    if pressure or (pressure is None and "pressure" in g):
        names2 += ["pressure" + loc for loc in LOCS]
    for n in names2:
        if not need(n):
            continue
        v = g[n]
        if not isinstance(v, np.ndarray) or v.shape != shape2:
            bad.append(f"{n} has shape {getattr(v, 'shape', None)}, documented {shape2}")
            continue
        if n not in NAN_OK and not np.all(np.isfinite(v)):
            bad.append(f"{n} has {int((~np.isfinite(v)).sum())} non-finite values")
        if n in NAN_OK and np.any(np.isinf(v)):
            bad.append(f"{n} has infinite values")
    for n in ("ShiftAngle", "total_poloidal_distance"):
        if need(n):
            v = g[n]
            if v.shape != (nx,):
                bad.append(f"{n} has shape {v.shape}, documented ({nx},)")
            else:
                # NaN only outside the core: x-indices inside both separatrices are finite
                ncore = min(int(g["ixseps1"]), int(g["ixseps2"]), nx)
                has_core = (int(g["jyseps2_1"]) > int(g["jyseps1_1"])
                            or int(g["jyseps2_2"]) > int(g["jyseps1_2"]))
                if has_core and ncore > 0 and not np.all(np.isfinite(v[:ncore])):
                    bad.append(f"{n} is not finite in the core")
                if np.any(np.isinf(v)):
                    bad.append(f"{n} has infinite values")
    for n in ("closed_wall_R", "closed_wall_Z"):
        if need(n) and (g[n].ndim != 1 or not np.all(np.isfinite(g[n]))):
            bad.append(f"{n} malformed")
    if bad:
        return bad
    # chi: NaN only on open field lines / in the legs; finite somewhere in the core
    for n in POSITIVE:
        if n in g and not np.all(g[n] > 0):
            bad.append(f"{n} is not > 0 everywhere (min {float(np.min(g[n])):.3e})")
    # no folded cell: every corner quadrilateral has the same, non-zero orientation
    R = [g["Rxy_corners"], g["Rxy_lower_right_corners"], g["Rxy_upper_right_corners"],
         g["Rxy_upper_left_corners"]]
    Z = [g["Zxy_corners"], g["Zxy_lower_right_corners"], g["Zxy_upper_right_corners"],
         g["Zxy_upper_left_corners"]]
    area = np.zeros(shape2)
    for k in range(4):
        k2 = (k + 1) % 4
        area += R[k] * Z[k2] - R[k2] * Z[k]
    area *= 0.5
    if np.any(area == 0.0):
        bad.append(f"{int((area == 0).sum())} cells have zero area")
    elif not (np.all(area > 0) or np.all(area < 0)):
        bad.append(f"{int(min((area > 0).sum(), (area < 0).sum()))} cells are folded over "
                   "(corner quadrilateral orientation flips)")
    return bad
