"""Replayable case runners built on gridsim (one function per violation record engine).

Each `case_*` function takes a JSON-able case dict and returns a record with at least
`violation` (None or {"class", "detail"}) and `event_log_digest`.
"""

import os
import shutil
import tempfile

from . import core, gridio, gridsim


def scratch_dir():
    base = os.environ.get("HSIM_SCRATCH") or tempfile.gettempdir()
    return tempfile.mkdtemp(prefix="hsim-", dir=base)


# ---------------------------------------------------------------- C13 level B


def serial_variant(scenario):
    s = dict(scenario)
    s["np"] = 1
    s.pop("choices", None)
    return s


def case_c13_grid(case, ref_path=None, ref_res=None, keep_log=False):
    """Serial reference versus simulated-parallel run of one scenario (same fault plan,
    content-addressed).  Equivalence demanded: same outcome class (returned/raised; never
    hung) and, when both returned, bit-identical numeric arrays."""
    scenario = case["scenario"]
    d = scratch_dir()
    try:
        if ref_path is None:
            ref_path = os.path.join(d, "serial.nc")
            ref_res = gridsim.run(serial_variant(scenario), ref_path)
        par_path = os.path.join(d, "par.nc")
        scenario = dict(scenario, work_cap=20 * ref_res["work"] + 20000)
        res = gridsim.run(scenario, par_path, keep_log=keep_log)
        violation = None
        diffs = []
        if res["outcome"] == "hung":
            violation = {"class": "HUNG:" + str(res["exc"]),
                         "detail": f"np={scenario['np']} run never returned "
                                   f"(serial outcome: {ref_res['outcome']} {ref_res['exc']})"}
        elif ref_res["outcome"] == "raised" and res["outcome"] == "returned":
            violation = {"class": "PAR_RETURNED_SERIAL_RAISED",
                         "detail": f"serial raised {ref_res['exc']}: {ref_res['msg']}"}
        elif ref_res["outcome"] == "returned" and res["outcome"] == "raised":
            violation = {"class": "PAR_RAISED_SERIAL_RETURNED",
                         "detail": f"parallel raised {res['exc']}: {res['msg']}"}
        elif ref_res["outcome"] == "returned":
            diffs = gridio.diff_bitwise(gridio.read_grid(ref_path),
                                        gridio.read_grid(par_path))
            if diffs:
                violation = {"class": "GRID_DIFFERS",
                             "detail": f"{len(diffs)} numeric variables differ from the "
                                       f"serial grid, e.g. {diffs[:4]}"}
        out = {
            "engine": "c13-grid",
            "scenario": dict(scenario, choices=res.get("choices")),
            "serial_outcome": [ref_res["outcome"], ref_res["exc"]],
            "parallel_outcome": [res["outcome"], res["exc"]],
            "violation": violation,
            "event_log_digest": res.get("event_log_digest"),
            "work": [ref_res.get("work"), res.get("work")],
            "steps": res.get("steps"), "sim_time_us": res.get("sim_time_us"),
            "sim_stats": res.get("sim_stats"), "signature": res.get("signature"),
            "buggify": res.get("buggify"), "clock": res.get("clock"),
            "serial_buggify": ref_res.get("buggify"), "serial_clock": ref_res.get("clock"),
            "log": res.get("log"),
        }
        return out
    finally:
        shutil.rmtree(d, ignore_errors=True)


def replayer(engine):
    table = {
        "c13-grid": lambda rec: case_c13_grid({"scenario": rec["scenario"]}),
    }
    try:
        from . import engines_more

        table.update(engines_more.TABLE)
    except ImportError:
        pass
    if engine not in table:
        raise core.HarnessError(f"no replayer for engine {engine}")
    return table[engine]
