"""buggify (cooperative fault points on the refine retry chain, seam S3) and clocksim
(the refine timeout on a simulated clock, seam S2).

Both patch attributes from outside; /repo is untouched.  Wrapped methods either raise
the failure the real method is documented to raise (SolutionError / FunctionTimedOut) or
delegate to the real method.
"""

import collections
import contextlib
import hashlib
import struct
import threading

METHODS = {
    "newton": "refinePointNewton",
    "line": "refinePointLinesearch",
    "integrate": "refinePointIntegrate",
}


def _u01(key, name, R, Z):
    h = hashlib.blake2b(struct.pack("<dd", float(R), float(Z)), digest_size=8,
                        key=f"{key}/{name}".encode()[:64]).digest()
    return int.from_bytes(h, "big") / 2.0**64


class Buggify:
    """plan = {"mode": "content"|"count", "key": int, "arm": {method: prob},
               "from_call": n}

    content mode: a call fails iff a keyed hash of (method, exact coordinates of the
    point) falls below the armed probability -- the same points fail whatever the
    schedule or the number of workers, so serial and simulated-parallel runs under one
    plan are comparable.
    count mode: every armed call from the n-th armed call of the run onward fails with
    the armed probability (drawn from the same keyed hash, salted with the counter).
    """

    def __init__(self, plan):
        self.plan = plan
        self.arm = dict(plan.get("arm", {}))
        self.mode = plan.get("mode", "content")
        self.key = plan.get("key", 0)
        self.from_call = plan.get("from_call", 0)
        self.until_call = plan.get("until_call")
        self.calls = collections.Counter()
        self.fired = collections.Counter()
        self.exhausted = 0
        self.fallback_taken = 0
        self.armed_calls = 0
        self.exhausted_in_worker = 0
        self.natural_fail = collections.Counter()

    def _should_fail(self, name, p):
        prob = self.arm.get(name)
        if prob is None:
            return False
        if self.mode == "content":
            return _u01(self.key, name, p.R, p.Z) < prob
        n = self.armed_calls
        self.armed_calls += 1
        if n < self.from_call:
            return False
        if self.until_call is not None and n >= self.until_call:
            return False
        return _u01(self.key, f"{name}#{n}", 0.0, 0.0) < prob

    @contextlib.contextmanager
    def installed(self):
        from hypnotoad.core.equilibrium import PsiContour, SolutionError

        saved = {}
        bug = self

        def wrap(name, attr):
            real = getattr(PsiContour, attr)
            saved[attr] = real

            def wrapper(self, p, *args, **kwargs):
                # signature-agnostic on purpose: a refactoring that adds a parameter to a
                # refine method must not be turned into a TypeError by the harness
                bug.calls[name] += 1
                if bug._should_fail(name, p):
                    bug.fired[name] += 1
                    raise SolutionError(f"buggify: {name} failed")
                try:
                    return real(self, p, *args, **kwargs)
                except SolutionError:
                    bug.natural_fail[name] += 1
                    raise

            wrapper.__name__ = attr
            setattr(PsiContour, attr, wrapper)

        for name, attr in METHODS.items():
            wrap(name, attr)
        real_refine_point = PsiContour.refinePoint
        saved["refinePoint"] = real_refine_point

        def refine_point(self, p, *args, **kw):
            before = sum(bug.fired.values())
            try:
                r = real_refine_point(self, p, *args, **kw)
            except SolutionError:
                bug.exhausted += 1
                if threading.current_thread().name.startswith("procsim-W"):
                    bug.exhausted_in_worker += 1
                raise
            if sum(bug.fired.values()) > before:
                bug.fallback_taken += 1
            return r

        PsiContour.refinePoint = refine_point
        try:
            yield self
        finally:
            for attr, real in saved.items():
                setattr(PsiContour, attr, real)

    def counters(self):
        return {"calls": dict(self.calls), "fired": dict(self.fired),
                "exhausted": self.exhausted, "fallback_taken": self.fallback_taken,
                "exhausted_in_worker": self.exhausted_in_worker,
                "natural_fail": dict(self.natural_fail)}


class Runaway(BaseException):
    """An integration outside any func_timeout deadline has used more right-hand-side
    evaluations than a whole normal generation needs by orders of magnitude.  hypnotoad
    has no bound there (PsiContour.refine on contours built with absurd tolerances can
    integrate for tens of minutes); the harness stops the run and records it as
    *undecided* - neither a pass nor a violation - instead of dying on the OS watchdog."""


class ClockSim:
    """`func_timeout.func_timeout` on a simulated clock.

    The refined function runs inline (no helper thread, no wall clock).  Every
    `PsiContour.refinePoint` call charges simulated CPU time to the simulated process
    that executes it: base * slowness * jitter(point).  When that process's clock passes
    the deadline of the innermost active `func_timeout`, FunctionTimedOut is raised from
    inside the running function -- the analogue of the asynchronous exception the real
    StoppableThread receives -- and propagates to the caller as the real one does.
    """

    def __init__(self, plan):
        self.plan = plan
        self.slowness = float(plan.get("slowness", 1.0))
        self.base = float(plan.get("base_s", 1.0e-4))
        self.key = plan.get("key", 0)
        self.clock = collections.defaultdict(float)
        self.stack = collections.defaultdict(list)
        self.fired = 0
        self.fired_in_worker = 0
        self.timeouts_started = 0
        self.total = 0.0
        self.slow_prob = float(plan.get("slow_prob", 0.0))
        self.slow_factor = float(plan.get("slow_factor", 1.0e7))
        # count addressing (serial runs): the machine stalls during the n-th deadline-
        # guarded call of the generation, whichever refinement pass that is
        self.stall_at = int(plan.get("stall_at_timeout", 0))
        # one ODE right-hand-side evaluation (three psi evaluations) costs ~5e-5 s on the
        # reference machine: a refinement that runs away inside solve_ivp passes a 10 s
        # deadline after ~2e5 evaluations, as it would under the real func_timeout
        self.rhs_cost = float(plan.get("rhs_cost_s", 5.0e-5))
        self.rhs_evals = 0
        self.free_rhs = 0
        self.runaway_cap = int(plan.get("runaway_cap", 3000000))
        # divertor-leg tracing (TokamakEquilibrium.findLegs) has its own solve_ivp and no
        # deadline; a normal equilibrium needs ~3e3 evaluations there
        self.leg_rhs = 0
        self.leg_cap = int(plan.get("leg_cap", 1000000))

    def _func_timeout(self, timeout, func, args=(), kwargs=None):
        kwargs = kwargs or {}
        tid = threading.get_ident()
        self.timeouts_started += 1
        self.stack[tid].append((self.clock[tid] + timeout, timeout, func, args, kwargs))
        try:
            return func(*args, **kwargs)
        finally:
            self.stack[tid].pop()

    def _charge(self, p):
        from func_timeout.exceptions import FunctionTimedOut

        tid = threading.get_ident()
        jitter = 0.5 + 1.5 * _u01(self.key, "cost", p.R, p.Z)
        dt = self.base * self.slowness * jitter
        if self.slow_prob and _u01(self.key, "slow", p.R, p.Z) < self.slow_prob:
            dt *= self.slow_factor  # a point near a coil: the solver crawls
        if self.stall_at and self.timeouts_started == self.stall_at and self.stack[tid]:
            dt *= self.slow_factor
        self.clock[tid] += dt
        self.total += dt
        st = self.stack[tid]
        if st and self.clock[tid] > st[-1][0]:
            _, timeout, func, args, kwargs = st[-1]
            self.fired += 1
            if threading.current_thread().name.startswith("procsim-W"):
                self.fired_in_worker += 1
            raise FunctionTimedOut("", timeout, func, args, kwargs)

    def _charge_rhs(self):
        from func_timeout.exceptions import FunctionTimedOut

        tid = threading.get_ident()
        st = self.stack[tid]
        self.rhs_evals += 1
        if not st:
            self.free_rhs += 1
            if self.free_rhs > self.runaway_cap:
                raise Runaway(f"more than {self.runaway_cap} ODE evaluations outside any "
                              "deadline")
            return
        dt = self.rhs_cost * self.slowness
        self.clock[tid] += dt
        self.total += dt
        if self.clock[tid] > st[-1][0]:
            _, timeout, func, args, kwargs = st[-1]
            self.fired += 1
            if threading.current_thread().name.startswith("procsim-W"):
                self.fired_in_worker += 1
            raise FunctionTimedOut("", timeout, func, args, kwargs)

    @contextlib.contextmanager
    def installed(self):
        import func_timeout

        import hypnotoad.core.equilibrium as eqmod
        from hypnotoad.core.equilibrium import PsiContour

        real_ft = func_timeout.func_timeout
        real_rp = PsiContour.refinePoint
        real_ivp = eqmod.solve_ivp
        clk = self

        def refine_point(self, p, *args, **kw):
            clk._charge(p)
            return real_rp(self, p, *args, **kw)

        def solve_ivp(fun, *a, **kw):
            def charged(*fa, **fkw):
                clk._charge_rhs()
                return fun(*fa, **fkw)

            return real_ivp(charged, *a, **kw)

        import hypnotoad.cases.tokamak as tokmod

        real_tok_ivp = tokmod.solve_ivp

        def leg_solve_ivp(fun, *a, **kw):
            def counted(*fa, **fkw):
                clk.leg_rhs += 1
                if clk.leg_rhs > clk.leg_cap:
                    raise Runaway(f"more than {clk.leg_cap} ODE evaluations while tracing "
                                  "divertor legs (findLegs has no bound)")
                return fun(*fa, **fkw)

            return real_tok_ivp(counted, *a, **kw)

        func_timeout.func_timeout = self._func_timeout
        PsiContour.refinePoint = refine_point
        eqmod.solve_ivp = solve_ivp
        tokmod.solve_ivp = leg_solve_ivp
        try:
            yield self
        finally:
            func_timeout.func_timeout = real_ft
            PsiContour.refinePoint = real_rp
            eqmod.solve_ivp = real_ivp
            tokmod.solve_ivp = real_tok_ivp

    def counters(self):
        return {"timeouts_started": self.timeouts_started, "timeout_fired": self.fired,
                "timeout_fired_in_worker": self.fired_in_worker, "sim_cpu_s": self.total}


@contextlib.contextmanager
def inline_timeout():
    """The default for every run in which the timeout is not the subject: func_timeout
    without the helper thread and without the wall clock, on a simulated clock running at
    the reference machine's speed (slowness 1).  The deadline still exists, so a
    refinement that runs away (garbage contour, hopeless settings) ends in
    FunctionTimedOut after refine_timeout simulated seconds exactly as in the real system
    -- deterministically, and whatever the load on the machine running the check."""
    clk = ClockSim({"slowness": 1.0, "key": 0})
    with clk.installed():
        yield clk


class RegridRefusal:
    """Count-addressed refusal inside Mesh.redistributePoints: the n-th contour handed to
    PsiContour.regrid(refine=False) is refused with the ValueError that the spacing
    functions raise for settings they cannot honour (_checkMonotonic).  Which contour a
    natural refusal hits depends on the equilibrium and the settings; the injected one
    makes that depth a choice of the simulator.  The state left behind is the one a
    natural refusal at the same contour leaves: earlier contours of the region moved and
    not yet refined, this one and the later ones untouched."""

    def __init__(self, n):
        self.n = n
        self.calls = 0
        self.fired = 0

    @contextlib.contextmanager
    def installed(self):
        from hypnotoad.core.equilibrium import PsiContour

        real = PsiContour.regrid
        inj = self

        def regrid(self, *a, **kw):
            if kw.get("refine", True) is False:
                inj.calls += 1
                if inj.calls == inj.n:
                    inj.fired += 1
                    raise ValueError("injected: combined spacing function is decreasing "
                                     f"(contour {inj.calls} of this redistribution)")
            return real(self, *a, **kw)

        PsiContour.regrid = regrid
        try:
            yield self
        finally:
            PsiContour.regrid = real


class AddressSim:
    """The allocator as a seam: `id()` as seen by hypnotoad's modules.

    CPython is free to place a new object at the address of one that has been freed, so
    an id() that outlives its object is a source of nondeterminism.  While installed,
    every loaded hypnotoad module resolves `id` to this simulator, which hands the
    identity of a *dead* weak-referenceable object to the next new object of the same
    type (always: the adversarial but legal allocator).  Objects that are alive at the
    same time never share an identity.  The unchanged tree calls id() nowhere, so the seam
    is inert there."""

    def __init__(self):
        self.fake = {}      # real id -> identity handed out, for live objects
        self.free = {}      # type -> identities of dead objects
        self.reused = 0
        self.calls = 0

    def id(self, obj):
        import builtins
        import weakref

        self.calls += 1
        real = builtins.id(obj)
        if real in self.fake:
            return self.fake[real]
        try:
            pool = self.free.get(type(obj))
            ident = real
            if pool:
                ident = pool.pop()
                self.reused += 1
            weakref.finalize(obj, self._died, real, type(obj), ident)
            self.fake[real] = ident
            return ident
        except TypeError:  # not weak-referenceable: the real address
            return real

    def _died(self, real, typ, ident):
        self.fake.pop(real, None)
        self.free.setdefault(typ, []).append(ident)

    @contextlib.contextmanager
    def installed(self):
        import sys

        mods = [m for name, m in list(sys.modules.items())
                if (name == "hypnotoad" or name.startswith("hypnotoad.")) and m is not None]
        saved = []
        for m in mods:
            saved.append((m, m.__dict__.get("id", AddressSim)))
            m.__dict__["id"] = self.id
        try:
            yield self
        finally:
            for m, old in saved:
                if old is AddressSim:
                    m.__dict__.pop("id", None)
                else:
                    m.__dict__["id"] = old
