"""Seeds, choice streams, event logs, digests, replay files.

One integer (VERIF_SEED) decides everything: run `i` of engine `E` uses
seed_i = blake2b(f"{VERIF_SEED}/{E}/{i}") and derives named, independent
`random.Random` streams from it.  Every decision that influences a schedule or a
fault is drawn through a `Choices` object which records it, so a run can be replayed
from its explicit choice trace as well as from its seed.
"""

import hashlib
import json
import os
import random

REPO = os.environ.get("HSIM_REPO", "/repo")
VERIF = os.path.dirname(os.path.dirname(os.path.abspath(__file__)))
# whole-grid runs on procsim give every simulated process its own copy of hypnotoad's
# class-level / module-level state (procsim.StateIsolation); HSIM_ISOLATE=0 turns it off
ISOLATE = os.environ.get("HSIM_ISOLATE", "1") != "0"


def h64(text):
    return int.from_bytes(hashlib.blake2b(text.encode(), digest_size=8).digest(), "big")


def run_seed(verif_seed, engine, index):
    return h64(f"{verif_seed}/{engine}/{index}")


def stream(seed, name):
    """Independent PRNG stream `name` of a run seed."""
    return random.Random(h64(f"{seed}/{name}"))


class Choices:
    """A recorded stream of bounded integer choices.

    Generating mode: draws come from `rng` and are appended to `trace`.
    Replay mode: draws come from `given`; when it is exhausted (or a value is out of
    range, which happens while a trace is being minimised) the draw is 0 -- by
    convention the simplest alternative (no delay / first candidate / no fault).
    """

    def __init__(self, rng=None, given=None):
        self.rng = rng
        self.given = list(given) if given is not None else None
        self.trace = []

    def draw(self, n, weights=None):
        if n <= 1:
            v = 0
        elif self.given is not None:
            k = len(self.trace)
            v = self.given[k] if k < len(self.given) else 0
            if not (0 <= v < n):
                v = 0
        elif weights is not None:
            v = self.rng.choices(range(n), weights=weights)[0]
        else:
            v = self.rng.randrange(n)
        self.trace.append(v)
        return v


class EventLog:
    """Append-only event log; its digest is the identity of a run.

    Payloads must be built from names and numbers only (never a repr holding a memory
    address, never a real clock reading).
    """

    def __init__(self, keep=True):
        self.h = hashlib.blake2b(digest_size=16)
        self.n = 0
        self.keep = keep
        self.lines = []

    def add(self, *fields):
        line = "|".join(str(f) for f in fields)
        self.h.update(line.encode())
        self.h.update(b"\n")
        self.n += 1
        if self.keep:
            self.lines.append(line)

    def digest(self):
        return self.h.hexdigest()


def jdump(obj):
    return json.dumps(obj, sort_keys=True, separators=(",", ":"), default=_default)


def _default(o):
    try:
        import numpy as np

        if isinstance(o, np.integer):
            return int(o)
        if isinstance(o, np.floating):
            return float(o)
        if isinstance(o, np.ndarray):
            return o.tolist()
        if isinstance(o, np.bool_):
            return bool(o)
    except ImportError:  # pragma: no cover
        pass
    if isinstance(o, (set, frozenset)):
        return sorted(o)
    if isinstance(o, tuple):
        return list(o)
    raise TypeError(f"not JSON serialisable: {type(o).__name__}")


def digest_of(obj, n=12):
    return hashlib.blake2b(jdump(obj).encode(), digest_size=16).hexdigest()[:n]


def repo_state():
    """Identify the tree the check ran against (HEAD + digest of tracked python)."""
    import subprocess

    try:
        head = subprocess.run(
            ["git", "-C", REPO, "rev-parse", "HEAD"], capture_output=True, text=True
        ).stdout.strip()
    except Exception:
        head = "unknown"
    h = hashlib.blake2b(digest_size=8)
    root = os.path.join(REPO, "hypnotoad")
    for dirpath, dirnames, filenames in sorted(os.walk(root)):
        dirnames.sort()
        if "__pycache__" in dirpath:
            continue
        for fn in sorted(filenames):
            if fn.endswith(".py"):
                p = os.path.join(dirpath, fn)
                h.update(os.path.relpath(p, root).encode())
                with open(p, "rb") as f:
                    h.update(f.read())
    return {"repo_head": head, "tree_digest": h.hexdigest()}


def assert_repo_import():
    """Checks must exercise /repo's working tree, nothing else."""
    import hypnotoad

    p = os.path.realpath(hypnotoad.__file__)
    if not p.startswith(os.path.realpath(REPO) + os.sep):
        raise HarnessError(f"hypnotoad imported from {p}, not from {REPO}")


class HarnessError(Exception):
    """Something is wrong with the machinery, not with hypnotoad (exit code 2)."""


def write_replay(record, outdir=None):
    outdir = outdir or os.path.join(VERIF, "out", "replays")
    os.makedirs(outdir, exist_ok=True)
    body = {k: v for k, v in record.items() if k not in ("repo_head", "tree_digest")}
    name = f"{record['property']}-{digest_of(body)}.json"
    path = os.path.join(outdir, name)
    with open(path, "w") as f:
        json.dump(record, f, indent=1, sort_keys=True, default=_default)
        f.write("\n")
    return path


def read_replay(path):
    with open(path) as f:
        return json.load(f)
