"""histsim (C14): environment matrix, interpreter histories, provenance round trip."""

import json
import os
import shutil
import subprocess
import sys
import warnings

from . import cli, core, engines, gridio, gridsim, workloads

CHILD = os.path.join(core.VERIF, "checks", "child.py")


# ------------------------------------------------------------------ probes


def probe(scenario, path=None):
    """Generate the probe's grid in this interpreter; numeric digest or refusal.  `path`
    may name a file that an earlier operation has already written."""
    d = engines.scratch_dir()
    try:
        path = path or os.path.join(d, "probe.nc")
        res = gridsim.run(scenario, path)
        out = {"outcome": res["outcome"], "exc": res["exc"], "msg": res.get("msg")}
        if res["outcome"] == "returned":
            out["digest"] = gridio.numeric_digest(gridio.read_grid(path))
        return out
    finally:
        shutil.rmtree(d, ignore_errors=True)


def child(request, env_over, cwd=None, timeout=900):
    """Run checks/child.py in a fresh interpreter under a given environment."""
    env = dict(os.environ)
    env.update({k: str(v) for k, v in env_over.items()})
    env["MPLBACKEND"] = "Agg"
    r = subprocess.run([sys.executable, CHILD], input=json.dumps(request), text=True,
                       capture_output=True, env=env, cwd=cwd, timeout=timeout)
    for line in reversed(r.stdout.splitlines()):
        if line.startswith("HSIM-RESULT "):
            return json.loads(line[len("HSIM-RESULT "):])
    raise core.HarnessError(f"child interpreter gave no result (rc={r.returncode}): "
                            f"{r.stderr[-600:]}")


def probe_scenarios(rng, n):
    """Probes for C14: every family, incl. sign-reversal / 2pi / profile options and
    options given as expressions evaluated from other options."""
    out = []
    for i in range(n):
        kind = ("circ-orth", "tok-rev", "circ-nonorth", "tok-plain", "tok-dn")[i % 5]
        if kind == "circ-orth":
            sc = {"family": "circ", "options": workloads.circ_options(rng, orthogonal=True)}
        elif kind == "circ-nonorth":
            sc = {"family": "circ", "options": workloads.circ_options(rng, orthogonal=False)}
        else:
            geom = {"tok-rev": rng.choice(("lsn", "usn")), "tok-plain": "lsn",
                    "tok-dn": rng.choice(("cdn", "udn", "ldn"))}[kind]
            o = workloads.tok_options(geom, y_boundary_guards=rng.choice((0, 1)))
            if kind == "tok-rev":
                o["reverse_current"] = rng.random() < 0.7
                o["psi_divide_twopi"] = rng.random() < 0.5
                o["reverse_Bt"] = rng.random() < 0.5
                if not (o["reverse_current"] or o["psi_divide_twopi"] or o["reverse_Bt"]):
                    o["reverse_current"] = True
            sc = {"family": "tok", "geometry": geom, "options": o,
                  "wall": rng.choice(("rect", "slanted"))}
        sc["np"] = 1
        out.append(sc)
    return out


def env_matrix(rng, n):
    envs = [{"PYTHONHASHSEED": "0", "OMP_NUM_THREADS": "1", "OPENBLAS_NUM_THREADS": "1",
             "TZ": "UTC"}]
    while len(envs) < n:
        envs.append({
            "PYTHONHASHSEED": str(rng.choice((1, rng.randrange(2**32)))),
            "OMP_NUM_THREADS": rng.choice(("1", "4")),
            "OPENBLAS_NUM_THREADS": rng.choice(("1", "4")),
            "TZ": rng.choice(("UTC", "Pacific/Kiritimati", "America/Anchorage")),
            "HSIM_DATE": rng.choice(("2020-01-02", "1999-12-31", "2031-07-15")),
            "HSIM_UUID": f"{rng.randrange(16**8):08x}-0000-1000-8000-{rng.randrange(16**12):012x}",
        })
    return envs


# ------------------------------------------------------------------ histories


# earlier builds differ from the probe in all sorts of options, so that anything that one
# build leaves behind for the next (a class-level default, a memo, a module flag) shows
SWARM = [
    {"refine_methods": ["integrate+newton"]}, {"refine_methods": ["line", "integrate"]},
    {"refine_methods": ["newton", "integrate+newton", "integrate"]},
    {"refine_width": 1.0e-3}, {"refine_atol": 1.0e-10}, {"finecontour_atol": 1.0e-10},
    {"finecontour_Nfine": 60}, {"N_norm_prefactor": 2.0},
    {"follow_perpendicular_rtol": 1.0e-6}, {"finecontour_overdamping_factor": 0.6},
    {"geometry_rtol": 1.0e-8}, {"sfunc_checktol": 1.0e-10}, {"refine_timeout": 30.0},
    {"poloidal_spacing_delta_psi": 0.005}, {"finecontour_extend_prefactor": 3.0},
    # perpendicular lines that run out of iterations and are "recovered"
    {"follow_perpendicular_recover": True, "follow_perpendicular_maxits": 40},
]


def swarm(rng, options, geometry=None):
    if rng.random() < 0.6:
        for frag in rng.sample(SWARM, rng.choice((1, 2, 3))):
            options.update(frag)
    if geometry in ("lsn", "usn") and rng.random() < 0.25:
        options["psi_interpolation_method"] = "dct"  # double nulls are refused with dct
    return options


def history_ops(rng, key):
    """0..5 earlier operations in the same interpreter."""
    ops = []
    for _ in range(rng.choice((0, 1, 2, 2, 3, 3, 4, 5))):
        k = rng.choice(("grid", "grid_fail", "tok_reuse", "tok_reuse", "invalid", "regrid",
                        "grid_par"))
        if k == "grid":
            sc = probe_scenarios(rng, 5)[rng.randrange(5)]
            swarm(rng, sc["options"], sc.get("geometry"))
            ops.append({"op": "grid", "scenario": sc,
                        "upto": rng.choice(("construct", "geometry", "write"))})
        elif k == "grid_par":
            sc = {"family": "circ", "options": swarm(rng, workloads.circ_options(rng)),
                  "np": 2, "sched_seed": rng.randrange(10**6)}
            ops.append({"op": "grid", "scenario": sc, "upto": "write"})
        elif k == "grid_fail":
            from .scenarios import fault_plan

            sc = {"family": "circ", "options": workloads.circ_options(rng, orthogonal=True),
                  "np": rng.choice((1, 1, 2)), "sched_seed": rng.randrange(10**6)}
            kind, bug, clk, opts = fault_plan(rng, key + len(ops), kind=rng.choice(
                ("exhaust", "timeout")))
            sc["options"].update(opts)
            sc["buggify"], sc["clock"] = bug, clk
            ops.append({"op": "grid", "scenario": sc, "upto": "write"})
        elif k == "tok_reuse":
            geom = rng.choice(("lsn", "usn", "cdn"))
            sets = []
            for _ in range(rng.choice((2, 2, 3))):
                o = workloads.tok_options(geom)
                for name in ("reverse_current", "psi_divide_twopi", "reverse_Bt",
                             "extrapolate_profiles"):
                    if rng.random() < 0.45:
                        o[name] = True
                sets.append(o)
            ops.append({"op": "tok_reuse", "geometry": geom, "option_sets": sets,
                        "fpol": rng.random() < 0.8, "pressure": rng.random() < 0.8})
        elif k == "invalid":
            ops.append({"op": "invalid", "which": rng.choice(
                ("negative_nx", "bad_type", "bad_method", "tok_bad_psinorm"))})
        elif k == "regrid":
            o = workloads.circ_options(rng, orthogonal=False)
            ops.append({"op": "regrid", "options": o,
                        "new": {"nonorthogonal_xpoint_poloidal_spacing_length":
                                rng.choice((0.8, 1.0, 1.5)),
                                "nonorthogonal_xpoint_poloidal_spacing_range":
                                rng.choice((0.05, 0.1))}})
    return ops


def exec_op(op, probe_path=None):
    """Execute one earlier operation; every hypnotoad exception is swallowed (the user
    carries on in the same interpreter, as in the GUI or a notebook)."""
    warnings.simplefilter("ignore")
    kind = op["op"]
    try:
        if kind == "grid":
            d = engines.scratch_dir()
            try:
                sc = op["scenario"]
                if op["upto"] == "write" or sc.get("np", 1) > 1:
                    out = os.path.join(d, "x.nc")
                    if op.get("to_probe_path") and probe_path:
                        out = probe_path  # the user keeps writing to the same file name
                    r = gridsim.run(sc, out)
                    return r["outcome"]
                with workloads.env_seams():
                    from . import faults

                    with faults.inline_timeout():
                        o = dict(sc["options"], number_of_processors=1)
                        eq, mesh = gridsim.build(sc, o)
                        if op["upto"] == "geometry":
                            mesh.calculateRZ()
                            mesh.geometry()
                return "returned"
            finally:
                shutil.rmtree(d, ignore_errors=True)
        if kind == "tok_reuse":
            arrs = workloads.tokamak_arrays(op["geometry"], fpol=op["fpol"],
                                            pressure=op["pressure"])
            outcomes = []
            for i, o in enumerate(op["option_sets"]):
                try:
                    from . import faults

                    with faults.inline_timeout():
                        workloads.build_tokamak(arrs, o, equilibrium_only=True,
                                                where=f"tok_reuse[{i}] "
                                                      f"{sorted(k for k, v in o.items() if v is True)}")
                    outcomes.append("returned")
                except Exception as e:  # noqa: BLE001
                    outcomes.append("raised:" + type(e).__name__)
            return ",".join(outcomes)
        if kind == "invalid":
            from hypnotoad.cases.circular import CircularEquilibrium

            bad = {"negative_nx": {"nx": -3}, "bad_type": {"ny": "eight"},
                   "bad_method": {"refine_methods": "magic"},
                   "tok_bad_psinorm": None}[op["which"]]
            if bad is None:
                arrs = workloads.tokamak_arrays("lsn")
                workloads.build_tokamak(arrs, workloads.tok_options("lsn", psinorm_core=-5.0),
                                        equilibrium_only=True, where="invalid")
            else:
                CircularEquilibrium(settings=bad, nonorthogonal_settings=bad)
            return "returned"
        if kind == "regrid":
            from . import faults

            with workloads.env_seams(), faults.inline_timeout():
                eq, mesh = workloads.build_circular(op["options"])
                mesh.calculateRZ()
                mesh.redistributePoints(dict(op["options"], **op["new"]))
                mesh.calculateRZ()
                mesh.geometry()
            return "returned"
        raise core.HarnessError(f"unknown op {kind}")
    except core.HarnessError:
        raise
    except BaseException as e:  # noqa: BLE001
        if isinstance(e, KeyboardInterrupt):
            raise
        return "raised:" + type(e).__name__


def run_history(ops, probe_scenario):
    workloads.INPUT_MUTATIONS.clear()
    pdir = engines.scratch_dir()
    probe_path = os.path.join(pdir, "bout.grd.nc")
    try:
        outcomes = [exec_op(op, probe_path) for op in ops]
        mutations_ops = list(workloads.INPUT_MUTATIONS)
        workloads.INPUT_MUTATIONS.clear()
        p = probe(probe_scenario, probe_path)
    finally:
        shutil.rmtree(pdir, ignore_errors=True)
    mutations_probe = list(workloads.INPUT_MUTATIONS)
    workloads.INPUT_MUTATIONS.clear()
    return {"op_outcomes": outcomes, "probe": p,
            "input_mutations": mutations_ops + mutations_probe}


# ------------------------------------------------------------------ round trip


ROUNDTRIP_FRAGMENTS = [
    {"refine_methods": "integrate+newton"}, {"refine_atol": 1e-8},
    {"finecontour_atol": 1e-11}, {"psi_interpolation_method": "dct"},
    {"cap_Bp_ylow_xpoint": True}, {"geometry_rtol": 1e-9}, {"xpoint_offset": 0.2},
    {"poloidal_spacing_method": "monotonic"}, {"follow_perpendicular_rtol": 1e-8},
    {"wall_point_exclude_radius": 2e-3}, {"curvature_smoothing": "smoothnl"},
    {"psi_core": None}, {"poloidal_spacing_delta_psi": 0.01}, {"leg_trace_atol": 1e-9},
    {"N_norm_prefactor": 2.0}, {"target_all_poloidal_spacing_length": 1},
    {"shiftedmetric": True}, {"refine_timeout": 20.0}, {"sfunc_checktol": 1e-12},
    # explicitly None where the default is a number ("switch this off")
    {"target_outer_lower_poloidal_spacing_length": None},
    {"target_inner_lower_poloidal_spacing_length": None},
    {"refine_timeout": None},
]


def roundtrip_case(rng, key):
    geom = rng.choice(("lsn", "lsn", "usn", "cdn", "udn", "ldn"))
    o = workloads.tok_options(geom, y_boundary_guards=rng.choice((0, 1)))
    # options given as expressions / defaults evaluated from other options
    if rng.random() < 0.5:
        o.pop("psinorm_pf", None)  # default is an expression of psinorm_core
    if rng.random() < 0.4:
        o["psinorm_sol_inner"] = o["psinorm_sol"]
    for name in ("reverse_current", "psi_divide_twopi", "reverse_Bt"):
        if rng.random() < 0.3:
            o[name] = True
    if geom in ("cdn", "udn", "ldn") and rng.random() < 0.4:
        o["orthogonal"] = False
    if rng.random() < 0.3:
        o["curvature_type"] = "curl(b/B) with x-y derivatives" if o.get(
            "orthogonal", True) else "curl(b/B)"
    # a few further options in the forms users give them (string or list, None, int for
    # float, per-leg overrides, the other interpolation method): each must survive being
    # evaluated, dumped to YAML, loaded again and fed back
    for frag in rng.sample(ROUNDTRIP_FRAGMENTS, rng.choice((0, 1, 2, 3))):
        o.update(frag)
    np_ = rng.choice((1, 1, 2))
    if np_ > 1:
        o["number_of_processors"] = np_
    # radial ranges given as unnormalised flux values (psi_core, psi_sol, ...) instead of
    # psinorm_*: they are in the units of the psi hypnotoad grids, i.e. after the
    # sign / 2pi options have been applied
    explicit = []
    if rng.random() < 0.4:
        explicit = rng.sample(["psi_core", "psi_sol", "psi_pf_lower"], rng.choice((1, 2)))
    # the first grid comes either from the command line or - as in the GUI and in
    # scripts such as tokamak_example.py - from the Python API reading the same g-file
    first = rng.choice(("cli", "cli", "api"))
    return {"geometry": geom, "options": o, "np": np_ if first == "cli" else 1,
            "explicit_psi": explicit, "first": first,
            "wall": rng.choice(("rect", "slanted")), "sched_seed": rng.randrange(10**6),
            "gfile_name": rng.choice(("in.geqdsk", "g012345.00100", "shot 7.eqdsk")),
            # real g-files often start with blanks and end with blank lines or a trailer;
            # "byte-exact" must hold for those too
            "decorate": rng.choice(("none", "leading_spaces", "trailing_blank_lines",
                                    "both", "trailing_comment"))}


def _api_generate(gfile, options, out):
    """What the GUI does: read_geqdsk with the options, BoutMesh, geometry, write."""
    from hypnotoad.cases import tokamak
    from hypnotoad.core.mesh import BoutMesh

    with open(gfile, "rt") as fh:
        eq = tokamak.read_geqdsk(fh, settings=dict(options),
                                 nonorthogonal_settings=dict(options))
    mesh = BoutMesh(eq, dict(options))
    mesh.calculateRZ()
    mesh.geometry()
    mesh.writeGridfile(out)


def run_roundtrip(case):
    """in.geqdsk + in.yaml --hypnotoad-geqdsk--> G1 --hypnotoad-recreate-inputs-->
    (out.geqdsk, out.yaml) --hypnotoad-geqdsk--> G2."""
    import random

    import yaml

    warnings.simplefilter("ignore")
    d = engines.scratch_dir()
    try:
        a = os.path.join(d, "a")
        b = os.path.join(d, "b")
        os.makedirs(a)
        os.makedirs(b)
        arrs = workloads.tokamak_arrays(case["geometry"], wall=case["wall"])
        with workloads.env_seams():
            text = workloads.geqdsk_text(arrs)
        options = dict(case["options"])
        if case.get("explicit_psi"):
            import numpy as np
            from hypnotoad.cases import tokamak as _tok

            a2 = workloads.tokamak_arrays(case["geometry"], wall=case["wall"])
            with workloads.env_seams():
                eq0 = _tok.TokamakEquilibrium(
                    a2["R1D"], a2["Z1D"], a2["psi2D"], a2["psi1D"], a2["fpol1D"],
                    wall=a2["wall"], make_regions=False,
                    settings={k: options[k] for k in ("reverse_current", "psi_divide_twopi")
                              if k in options})
            norm = {"psi_core": options.get("psinorm_core", 0.8),
                    "psi_sol": options.get("psinorm_sol", 1.2),
                    "psi_pf_lower": options.get("psinorm_pf", 0.9)}
            for name in case["explicit_psi"]:
                options[name] = float(np.round(
                    eq0.psi_axis + norm[name] * (eq0.psi_bdry - eq0.psi_axis), 9))
        deco = case.get("decorate", "none")
        if deco in ("leading_spaces", "both"):
            text = "  " + text
        if deco in ("trailing_blank_lines", "both"):
            text = text + "\n  \n\n"
        if deco == "trailing_comment":
            text = text + " end of file written by hsim\n\t\n"
        gname = case["gfile_name"]
        with open(os.path.join(a, gname), "w", newline="") as f:
            f.write(text)
        with open(os.path.join(a, "in.yaml"), "w") as f:
            yaml.safe_dump(options, f)
        np_ = case["np"]

        def ch(k):
            return core.Choices(rng=random.Random(core.h64(f"rt/{case['sched_seed']}/{k}")))

        if case.get("first") == "api":
            r1 = cli.run_entry(lambda: _api_generate(os.path.join(a, gname), options,
                                                     os.path.join(a, "bout.grd.nc")),
                               ["python"], a)
        else:
            r1 = cli.run_entry(cli.geqdsk_main(), ["hypnotoad-geqdsk", gname, "in.yaml"],
                               a, np_=np_, choices=ch(1))
        out = {"gen1": [r1["outcome"], r1["exc"], r1.get("msg")]}
        if r1["outcome"] != "returned":
            out["status"] = "refused" if r1["outcome"] == "raised" else "hung"
            return out
        g1 = os.path.join(a, "bout.grd.nc")
        r2 = cli.run_entry(cli.recreate_main(),
                           ["hypnotoad-recreate-inputs", g1, "-y", os.path.join(b, "out.yaml"),
                            "-g", os.path.join(b, gname)], b)
        out["recreate"] = [r2["outcome"], r2["exc"], r2.get("msg")]
        problems = []
        if r2["outcome"] != "returned":
            problems.append(f"hypnotoad-recreate-inputs failed: {r2['exc']}: {r2.get('msg')}")
        else:
            with open(os.path.join(b, gname), newline="") as f:
                back = f.read()
            if back != text:
                problems.append(f"geqdsk text not byte-exact (len {len(back)} vs {len(text)})")
            try:
                with open(os.path.join(b, "out.yaml")) as f:
                    loaded = yaml.safe_load(f)
            except Exception as e:  # noqa: BLE001
                loaded = None
                problems.append(f"embedded YAML does not load: {type(e).__name__}: {e}")
            if loaded is not None:
                from hypnotoad.cases.tokamak import TokamakEquilibrium
                from hypnotoad.core.mesh import BoutMesh

                want = set(TokamakEquilibrium.user_options_factory.defaults) | set(
                    TokamakEquilibrium.nonorthogonal_options_factory.defaults) | set(
                    BoutMesh.user_options_factory.defaults)
                missing = sorted(want - set(loaded))
                if missing:
                    problems.append(f"embedded YAML lacks options {missing[:6]}")
                out["yaml_keys"] = len(loaded)
        if not problems:
            r3 = cli.run_entry(cli.geqdsk_main(), ["hypnotoad-geqdsk", gname, "out.yaml"], b,
                               np_=np_, choices=ch(2))
            out["gen2"] = [r3["outcome"], r3["exc"], r3.get("msg")]
            if r3["outcome"] != "returned":
                problems.append(f"regeneration from the embedded inputs failed: "
                                f"{r3['exc']}: {r3.get('msg')}")
            else:
                diffs = gridio.diff_bitwise(gridio.read_grid(g1),
                                            gridio.read_grid(os.path.join(b, "bout.grd.nc")))
                if diffs:
                    problems.append(f"regenerated grid differs in {len(diffs)} variables, "
                                    f"e.g. {diffs[:3]}")
        out["status"] = "ok" if not problems else "violation"
        out["problems"] = problems
        return out
    finally:
        shutil.rmtree(d, ignore_errors=True)
