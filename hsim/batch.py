"""Run chunks of simulated runs on forked OS processes.

Batch composition never influences a run: each run re-seeds from its own index.
A worker that exceeds its wall-clock limit is killed by faulthandler (exit=True); that
surfaces as a broken pool and is reported as a *harness error* (exit code 2), never as
a pass and never as a violation.
"""

import faulthandler
import os
import sys
import time

from .core import HarnessError

_DEVNULL = None


def quiet_stdio():
    """hypnotoad prints progress copiously; send fd 1 of this process to /dev/null.
    stderr is kept (tracebacks from the watchdog)."""
    global _DEVNULL
    if _DEVNULL is None:
        _DEVNULL = os.open(os.devnull, os.O_WRONLY)
    sys.stdout.flush()
    os.dup2(_DEVNULL, 1)


def _init(quiet):
    import warnings

    warnings.simplefilter("ignore")
    os.environ.setdefault("MPLBACKEND", "Agg")
    if quiet:
        quiet_stdio()


def nproc_default():
    n = os.environ.get("VERIF_NPROC")
    if n:
        return max(1, int(n))
    return min(16, os.cpu_count() or 1)


def map_chunks(func, args, nproc=None, limit_s=600, quiet=True, progress=None):
    """Apply module-level `func` to each element of `args`, every job in a process of its
    own forked from this (single-threaded) process; results in order.  Raises HarnessError
    if a job's process dies or exceeds `limit_s`.

    Whatever a job leaves behind in its interpreter - module globals, class attributes,
    default arguments, caches - cannot reach another job, so a job's result does not depend
    on which jobs ran before it; histories inside one interpreter are part of a job's own
    plan instead.  (There is no pool: a pool worker has a queue feeder thread, and forking
    from a multi-threaded process is what CPython warns against.)"""
    import pickle
    import selectors
    import signal
    import traceback

    args = list(args)
    nproc = min(nproc or nproc_default(), max(1, len(args)))
    if nproc == 1 and os.environ.get("HSIM_INPROC"):
        return [func(a) for a in args]
    out = [None] * len(args)
    pending = list(enumerate(args))[::-1]
    sel = selectors.DefaultSelector()
    t0 = time.time()
    deadline = t0 + limit_s * (len(args) / nproc + 2)
    done = 0

    def spawn(i, a):
        r, w = os.pipe()
        sys.stdout.flush()
        sys.stderr.flush()
        pid = os.fork()
        if pid == 0:
            code = 1
            try:
                os.close(r)
                _init(quiet)
                faulthandler.dump_traceback_later(limit_s, exit=True)
                try:
                    res = ("ok", func(a))
                except BaseException as e:  # noqa: BLE001
                    res = ("err", type(e).__name__, str(e), traceback.format_exc())
                data = pickle.dumps(res)
                with os.fdopen(w, "wb") as f:
                    f.write(data)
                code = 0
            finally:
                os._exit(code)
        os.close(w)
        sel.register(r, selectors.EVENT_READ, [i, pid, bytearray()])

    def kill_all():
        for key in list(sel.get_map().values()):
            try:
                os.kill(key.data[1], signal.SIGKILL)
                os.waitpid(key.data[1], 0)
            except OSError:
                pass
            sel.unregister(key.fd)
            os.close(key.fd)

    try:
        while pending or sel.get_map():
            while pending and len(sel.get_map()) < nproc:
                spawn(*pending.pop())
            for key, _ in sel.select(timeout=5.0):
                chunk = os.read(key.fd, 1 << 20)
                if chunk:
                    key.data[2].extend(chunk)
                    continue
                sel.unregister(key.fd)
                os.close(key.fd)
                i, pid, buf = key.data
                _, status = os.waitpid(pid, 0)
                if not buf:
                    raise HarnessError(f"the process of job {i} died (wait status {status}; "
                                       f"watchdog {limit_s}s?)")
                res = pickle.loads(bytes(buf))
                if res[0] == "err":
                    if res[1] == "HarnessError":
                        raise HarnessError(res[2])
                    raise HarnessError(f"job {i} raised {res[1]}: {res[2]}\n{res[3]}")
                out[i] = res[1]
                done += 1
                if progress:
                    progress(done, len(args), time.time() - t0)
            if time.time() > deadline:
                raise HarnessError("batch exceeded its wall-clock limit")
    finally:
        kill_all()
        sel.close()
    return out
