"""Run chunks of simulated runs on forked OS processes.

Batch composition never influences a run: each run re-seeds from its own index.
A worker that exceeds its wall-clock limit is killed by faulthandler (exit=True); that
surfaces as a broken pool and is reported as a *harness error* (exit code 2), never as
a pass and never as a violation.
"""

import concurrent.futures as cf
import faulthandler
import multiprocessing
import os
import sys
import time

from .core import HarnessError

_DEVNULL = None


def quiet_stdio():
    """hypnotoad prints progress copiously; send fd 1 of this process to /dev/null.
    stderr is kept (tracebacks from the watchdog)."""
    global _DEVNULL
    if _DEVNULL is None:
        _DEVNULL = os.open(os.devnull, os.O_WRONLY)
    sys.stdout.flush()
    os.dup2(_DEVNULL, 1)


def _init(quiet):
    import warnings

    warnings.simplefilter("ignore")
    os.environ.setdefault("MPLBACKEND", "Agg")
    if quiet:
        quiet_stdio()


def _call(func, arg, limit_s):
    """Run one job in a process of its own, forked from the pool worker (which never
    runs a job itself and so stays as the parent left it): whatever a job leaves behind
    in the interpreter - module globals, class attributes, default arguments, caches -
    cannot reach another job, so a job's result does not depend on which jobs the pool
    happened to give the same worker before.  Histories inside one interpreter are part
    of a job's own plan instead."""
    import pickle
    import traceback

    if os.environ.get("HSIM_NO_TASK_FORK"):
        faulthandler.dump_traceback_later(limit_s, exit=True)
        try:
            return func(arg)
        finally:
            faulthandler.cancel_dump_traceback_later()
    r, w = os.pipe()
    sys.stdout.flush()
    sys.stderr.flush()
    pid = os.fork()
    if pid == 0:
        code = 1
        try:
            os.close(r)
            faulthandler.dump_traceback_later(limit_s, exit=True)
            try:
                res = ("ok", func(arg))
            except BaseException as e:  # noqa: BLE001
                res = ("err", type(e).__name__, str(e), traceback.format_exc())
            data = pickle.dumps(res)
            with os.fdopen(w, "wb") as f:
                f.write(data)
            code = 0
        finally:
            os._exit(code)
    os.close(w)
    with os.fdopen(r, "rb") as f:
        data = f.read()
    _, status = os.waitpid(pid, 0)
    if not data:
        raise HarnessError(f"a simulation process died (wait status {status}; "
                           f"watchdog {limit_s}s?)")
    res = pickle.loads(data)
    if res[0] == "err":
        if res[1] == "HarnessError":
            raise HarnessError(res[2])
        raise RuntimeError(f"{res[1]}: {res[2]}\n{res[3]}")
    return res[1]


def nproc_default():
    n = os.environ.get("VERIF_NPROC")
    if n:
        return max(1, int(n))
    return min(16, os.cpu_count() or 1)


def map_chunks(func, args, nproc=None, limit_s=600, quiet=True, progress=None):
    """Apply module-level `func` to each element of `args` on a fork pool; results in
    order.  Raises HarnessError if a worker dies or exceeds `limit_s`."""
    args = list(args)
    nproc = min(nproc or nproc_default(), max(1, len(args)))
    if nproc == 1 and os.environ.get("HSIM_INPROC"):
        return [func(a) for a in args]
    ctx = multiprocessing.get_context("fork")
    out = [None] * len(args)
    t0 = time.time()
    with cf.ProcessPoolExecutor(nproc, mp_context=ctx, initializer=_init,
                                initargs=(quiet,)) as ex:
        futs = {ex.submit(_call, func, a, limit_s): i for i, a in enumerate(args)}
        try:
            done = 0
            for f in cf.as_completed(futs, timeout=limit_s * (len(args) / nproc + 2)):
                out[futs[f]] = f.result()
                done += 1
                if progress:
                    progress(done, len(args), time.time() - t0)
        except cf.process.BrokenProcessPool as e:
            raise HarnessError(f"a simulation process died (watchdog {limit_s}s?): {e}")
        except cf.TimeoutError:
            for f in futs:
                f.cancel()
            raise HarnessError("batch exceeded its wall-clock limit")
    return out
