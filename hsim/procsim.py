"""procsim: simulated `multiprocessing` for hypnotoad.utils.parallel_map.

The repository's `ParallelMap.__init__/__call__/worker_run/__del__` run unmodified.
`hypnotoad.utils.parallel_map.multiprocessing` is replaced by a `SimMP` object whose
`Queue` and `Process` are driven by one discrete-event scheduler:

* every simulated process is a real Python thread, but exactly one of them holds the
  baton at any instant; the baton is passed only at *sync points* (queue put/get/empty,
  process start/join) -- the only places where real processes can observe each other;
* simulated time is an integer number of microseconds; when nothing is runnable the
  clock jumps to the next event;
* every delay is drawn through a recorded `Choices` stream, so one seed (or one explicit
  choice trace) is one exactly repeatable execution;
* `Queue.put` pickles with `multiprocessing.reduction.ForkingPickler`, exactly what the
  real queue's feeder thread uses, and *drops* an item that cannot be pickled, as the
  real feeder thread does;
* if the caller is blocked and no event is pending the real system would block for ever:
  the simulator records DEADLOCK and unwinds the caller with `SimAbort`.
"""

import collections
import contextlib
import heapq
import queue as _queue
import threading

from multiprocessing.reduction import ForkingPickler

# delay table, microseconds; index 0 (no delay) is what a minimised trace falls back to
DELAYS = (0, 1, 3, 10, 30, 100, 300, 1000, 10000, 100000, 1000000)
# generation weights: mostly short, sometimes a long stall
DELAY_WEIGHTS = (6, 6, 6, 6, 5, 4, 3, 2, 1, 0.5, 0.25)
SPEEDS = (1, 1, 1, 3, 10, 1000)


class SimKilled(SystemExit):
    """Unwinds a simulated process that was terminated.  Derives from SystemExit so that
    `except Exception` and well-behaved `except BaseException` handlers let it through."""


class SimAbort(BaseException):
    """Raised in the caller when the simulated system can make no progress (DEADLOCK) or
    has exceeded its step budget (STEPCAP)."""

    def __init__(self, verdict):
        super().__init__(verdict)
        self.verdict = verdict


class StateIsolation:
    """Per-process copies of hypnotoad's module-level and class-level state.

    Simulated processes are threads of one interpreter, so a class attribute or module
    global mutated by one of them would be seen by all - unlike real worker processes,
    which get a copy at fork() and diverge afterwards.  For whole-grid runs every simulated
    process therefore owns its own value of every such slot (dict / list / set and plain
    scalars defined on hypnotoad modules and on classes defined in them): the child's
    values are deep copies taken at Process.start(), and the slots are swapped whenever
    the baton changes hands."""

    CONTAINERS = (dict, list, set)
    SCALARS = (int, float, bool, str, tuple, type(None))

    def __init__(self):
        self.slots = []
        self.discover()

    def discover(self):
        import sys

        seen = {(id(o), n) for o, n in self.slots}
        for modname, mod in list(sys.modules.items()):
            if mod is None or not (modname == "hypnotoad" or modname.startswith("hypnotoad.")):
                continue
            if modname.startswith("hypnotoad.__version__") or "test_suite" in modname:
                continue
            for name, val in list(vars(mod).items()):
                if name.startswith("__"):
                    continue
                if isinstance(val, self.CONTAINERS + self.SCALARS):
                    if (id(mod), name) not in seen:
                        self.slots.append((mod, name))
                elif isinstance(val, type) and getattr(val, "__module__", None) == modname:
                    for an, av in list(vars(val).items()):
                        if an.startswith("__") or (id(val), an) in seen:
                            continue
                        if isinstance(av, self.CONTAINERS + self.SCALARS):
                            self.slots.append((val, an))
                            seen.add((id(val), an))

    def snapshot(self):
        out = []
        for owner, name in self.slots:
            try:
                out.append(vars(owner)[name])
            except KeyError:
                out.append(_MISSING)
        return out

    def fork_copy(self):
        import copy

        out = []
        for v in self.snapshot():
            if isinstance(v, self.CONTAINERS):
                try:
                    v = copy.deepcopy(v)
                except Exception:  # noqa: BLE001
                    v = copy.copy(v)
            out.append(v)
        return out

    def install(self, store):
        for (owner, name), v in zip(self.slots, store):
            if v is _MISSING:
                continue
            if vars(owner).get(name, _MISSING) is not v:
                setattr(owner, name, v)


_MISSING = object()


class _Part:
    __slots__ = (
        "name", "sem", "state", "killed", "speed", "thread", "blocked_tok",
        "timed_out", "exit_waiters", "started", "exitcode", "is_main", "store",
        "inflight", "exiting",
    )

    def __init__(self, name, is_main=False):
        self.name = name
        self.sem = threading.Semaphore(0)
        self.state = "new"  # new / ready / running / blocked / dead
        self.killed = False
        self.speed = 1
        self.thread = None
        self.blocked_tok = 0
        self.timed_out = False
        self.exit_waiters = []
        self.started = False
        self.exitcode = None
        self.is_main = is_main
        self.store = None
        self.inflight = 0   # items handed to a queue whose feeder has not flushed them yet
        self.exiting = False


class ProcSim:
    def __init__(self, choices, step_cap=100000, keep_log=True, log=None, isolate=False):
        from .core import EventLog

        self.iso = StateIsolation() if isolate else None
        # capacity of the pipe under every queue (bytes).  64 KiB on Linux; platforms and
        # payload sizes differ, so it is a per-run knob: a small capacity makes the
        # back-pressure paths run even with tiny synthetic payloads.
        self.pipe_capacity = 65536

        self.choices = choices
        self.log = log if log is not None else EventLog(keep=keep_log)
        self.now = 0
        self.seq = 0
        self.steps = 0
        self.step_cap = step_cap
        self.heap = []
        self.parts = []
        self.queues = []
        self.aborted = None
        self.closed = False
        self.main = None
        self.current = None
        self.stats = collections.Counter()
        self.gets = []  # (participant, queue, index) for signatures
        self.max_sim_time = 0
        self.by_thread = {}
        self.harness_error = None
        self.procs = []

    # ----------------------------------------------------------------- plumbing
    def attach_main(self):
        p = _Part("P0", is_main=True)
        p.thread = threading.current_thread()
        p.state = "running"
        p.started = True
        self.parts.append(p)
        self.main = p
        self.current = p
        self.by_thread[threading.get_ident()] = p
        return p

    def me(self):
        cur = self.current
        mine = self.by_thread.get(threading.get_ident())
        if mine is not None and mine.killed:
            raise SimKilled()
        if cur is None or cur is not mine:
            from .core import HarnessError

            raise HarnessError(
                "procsim: a thread without the baton touched the simulator "
                f"({threading.current_thread().name})"
            )
        return cur

    def _handover(self, frm, to):
        """The baton goes from `frm` to `to`: swap the per-process state."""
        if self.iso is None or frm is to:
            return
        if frm is not None:
            frm.store = self.iso.snapshot()
        if to.store is not None:
            self.iso.install(to.store)

    def _push(self, t, kind, a=None, b=None):
        self.seq += 1
        heapq.heappush(self.heap, (t, self.seq, kind, a, b))

    def _delay(self, part):
        k = self.choices.draw(len(DELAYS), DELAY_WEIGHTS)
        return DELAYS[k] * part.speed

    def _ready(self, part, delay):
        part.state = "ready"
        part.blocked_tok += 1
        self._push(self.now + delay, "run", part, part.blocked_tok)

    def _check_alive(self, me):
        if me.killed:
            raise SimKilled()
        if self.aborted and me.is_main:
            raise SimAbort(self.aborted)

    def _abort(self, me, verdict):
        if not self.aborted:
            self.aborted = verdict
            self.log.add(self.steps, self.now, me.name, "ABORT", verdict)
        if me.is_main:
            raise SimAbort(self.aborted)
        # wake the caller so that it unwinds, then park until shutdown
        main = self.main
        self._handover(me, main)
        self.current = main
        main.state = "running"
        main.sem.release()
        me.sem.acquire()
        raise SimKilled()

    def _schedule(self, me, returning=True):
        """Run the event loop until `me` is scheduled again (returning=True) or until
        the baton has been handed to somebody else (returning=False: `me` is exiting)."""
        while True:
            if self.aborted:
                if returning:
                    self._abort(me, self.aborted)
                # exiting thread: give the baton to the caller
                if not me.is_main:
                    main = self.main
                    self._handover(me, main)
                    self.current = main
                    main.state = "running"
                    main.sem.release()
                return
            if self.steps >= self.step_cap:
                self.aborted = "STEPCAP"
                self.log.add(self.steps, self.now, me.name, "ABORT", "STEPCAP")
                continue
            if not self.heap:
                self.aborted = "DEADLOCK"
                self.log.add(self.steps, self.now, me.name, "ABORT", "DEADLOCK")
                continue
            t, _, kind, a, b = heapq.heappop(self.heap)
            self.steps += 1
            if t > self.now:
                self.now = t
            if kind == "deliver":
                q, item = a, b
                if item[0].killed and not item[3]:
                    continue  # producer was killed before its feeder flushed this item
                q.try_deliver(item)
                continue
            if kind == "timeout":
                part, tok = a, b
                if part.state == "blocked" and part.blocked_tok == tok:
                    part.timed_out = True
                    self._ready(part, 0)
                continue
            # kind == "run"
            part, tok = a, b
            if part.state != "ready" or part.blocked_tok != tok or part.killed:
                continue
            part.state = "running"
            self._handover(me, part)
            self.current = part
            if part is me and returning:
                return
            part.sem.release()
            if not returning:
                return
            me.sem.acquire()
            self._check_alive(me)
            return

    def sync(self, me, kind, *detail):
        """A sync point of a participant that stays runnable."""
        self._check_alive(me)
        self.log.add(self.steps, self.now, me.name, kind, *detail)
        self._ready(me, self._delay(me))
        self._schedule(me)

    def block(self, me, timeout_us=None):
        me.state = "blocked"
        me.blocked_tok += 1
        me.timed_out = False
        if timeout_us is not None:
            self._push(self.now + int(timeout_us), "timeout", me, me.blocked_tok)
        self._schedule(me)

    # ----------------------------------------------------------------- processes
    def _thread_body(self, part, target, args, kwargs):
        from .core import HarnessError

        self.by_thread[threading.get_ident()] = part
        part.sem.acquire()
        if part.killed:
            return
        try:
            target(*args, **kwargs)
            part.exitcode = 0
            self.log.add(self.steps, self.now, part.name, "exit")
        except SimKilled:
            return  # the killer keeps the baton
        except BaseException as e:  # noqa: BLE001 - a dying worker, as in a real process
            if isinstance(e, HarnessError):
                self.harness_error = e
                self.aborted = "HARNESS"
            part.exitcode = 1
            self.stats["worker_died"] += 1
            self.log.add(self.steps, self.now, part.name, "died", type(e).__name__)
        # a real process joins its queue feeder threads before it exits: it is not gone
        # (is_alive() stays true, join() keeps waiting) until everything it put has been
        # written into the pipe
        part.exiting = True
        if part.inflight <= 0:
            self._mark_dead(part)
        else:
            self.log.add(self.steps, self.now, part.name, "exit_waits_for_feeder",
                         part.inflight)
        self._schedule(part, returning=False)

    def _mark_dead(self, part):
        part.state = "dead"
        for w in part.exit_waiters:
            if w.state == "blocked":
                self._ready(w, 0)
        part.exit_waiters = []

    def kill(self, part, flush=False):
        """terminate(): the target stops at once; items its feeder had not yet flushed
        are lost (flush=False) as with SIGTERM on a real worker."""
        if part.state == "dead" or not part.started:
            part.killed = True
            part.state = "dead"
            return
        me = self.current
        part.killed = True
        part.exitcode = -15
        part.inflight = 0
        for q in self.queues:
            q.stalled = [it for it in q.stalled if it[0] is not part]
            if q.waiters and q.waiters[0] is part and part.state == "blocked":
                q.poisoned = True
                self.stats["queue_poisoned"] += 1
                self.log.add(self.steps, self.now, part.name, "killed_holding_reader_lock",
                             q.name)
            if part in q.waiters:
                q.waiters.remove(part)
        self._mark_dead(part)
        if part is me:
            raise SimKilled()
        if part.thread is not None and part.thread.is_alive():
            part.sem.release()
            part.thread.join(10)
            if part.thread.is_alive():
                self.stats["leaked_threads"] += 1

    def interpreter_exit(self):
        """What multiprocessing's atexit handler does when the calling process exits while
        the map is still referenced: terminate daemonic children, then join every child.
        A live non-daemonic worker blocked in task_queue.get() is joined for ever."""
        me = self.me()
        self.log.add(self.steps, self.now, me.name, "interpreter_exit")
        live = [pr for pr in self.procs if pr.is_alive()]
        for pr in live:
            if pr.daemon:
                self.kill(pr.part)
        for pr in live:
            if pr.is_alive():
                pr.join()

    def shutdown(self):
        """End of a run: stop every simulated process that is still alive."""
        self.closed = True
        for p in self.parts:
            if not p.is_main and p.state != "dead":
                p.killed = True
                p.state = "dead"
                if p.thread is not None and p.thread.is_alive():
                    p.sem.release()
                    p.thread.join(10)
                    if p.thread.is_alive():
                        self.stats["leaked_threads"] += 1
        self.max_sim_time = self.now

    # ----------------------------------------------------------------- installation
    @contextlib.contextmanager
    def installed(self):
        import gc
        import hypnotoad.utils.parallel_map as pm

        real = pm.multiprocessing
        pm.multiprocessing = SimMP(self)
        # if parallel_map (now or after a change) uses the time module for polling or
        # deadlines, it must read the simulated clock, never the real one
        real_time = pm.__dict__.get("time")
        if real_time is not None:
            pm.time = SimTime(self, real_time)
        real_queue_mod = pm.__dict__.get("queue")
        gc_was = gc.isenabled()
        gc.disable()  # no __del__ at an arbitrary instant inside a run
        self.attach_main()
        try:
            yield self
        finally:
            self.shutdown()
            pm.multiprocessing = real
            if real_time is not None:
                pm.time = real_time
            del real_queue_mod
            if gc_was:
                gc.enable()


class SimQueue:
    def __init__(self, sim):
        self.sim = sim
        self.fifo = collections.deque()
        self.pipe_bytes = 0
        self.stalled = []  # items whose feeder is blocked on the full pipe, in order
        # multiprocessing.Queue.get() holds the queue's reader lock while it waits for
        # data.  A process terminated in that state never releases it: every later get()
        # on the queue blocks for ever (the documented hazard of terminate() with queues)
        self.poisoned = False
        self.waiters = []
        self.last_deliver = {}
        sim.queues.append(self)
        self.name = f"Q{len(sim.queues)}"

    @staticmethod
    def _index_of(obj):
        if isinstance(obj, tuple) and obj and isinstance(obj[0], int):
            return obj[0]
        return -1

    def try_deliver(self, item):
        """The producer's feeder thread writes the item into the pipe - if it fits.  An
        item that does not fit (and everything the same producer put after it) waits
        until a reader has made room."""
        sim = self.sim
        producer = item[0]
        if any(it[0] is producer for it in self.stalled) or (
                self.fifo and self.pipe_bytes + len(item[1]) > sim.pipe_capacity):
            self.stalled.append(item)
            sim.stats["pipe_full"] += 1
            sim.log.add(sim.steps, sim.now, producer.name, "pipe_full", self.name, item[2])
            return
        self._into_pipe(item)

    def _into_pipe(self, item):
        sim = self.sim
        producer = item[0]
        self.fifo.append(item)
        self.pipe_bytes += len(item[1])
        producer.inflight -= 1
        sim.stats["delivered"] += 1
        sim.log.add(sim.steps, sim.now, producer.name, "deliver", self.name, item[2])
        if producer.exiting and producer.inflight <= 0 and producer.state != "dead":
            sim._mark_dead(producer)
        waiters, self.waiters = self.waiters, []
        for w in waiters:
            if w.state == "blocked":
                sim._ready(w, sim._delay(w))

    def _drain_stalled(self):
        """A reader made room: blocked feeders continue, each in its own order."""
        sim = self.sim
        progress = True
        while progress and self.stalled:
            progress = False
            blocked_producers = set()
            for k, item in enumerate(self.stalled):
                if item[0] in blocked_producers:
                    continue
                if not self.fifo or self.pipe_bytes + len(item[1]) <= sim.pipe_capacity:
                    del self.stalled[k]
                    self._into_pipe(item)
                    progress = True
                    break
                blocked_producers.add(item[0])

    def put(self, obj, block=True, timeout=None):
        sim = self.sim
        if sim.closed:
            return
        me = sim.me()
        sim._check_alive(me)
        idx = self._index_of(obj)
        try:
            data = bytes(ForkingPickler.dumps(obj))
        except BaseException as e:  # noqa: BLE001 - the real feeder thread prints and drops
            sim.stats["pickle_drop"] += 1
            sim.log.add(sim.steps, sim.now, me.name, "pickle_drop", self.name, idx,
                        type(e).__name__)
            sim.sync(me, "put_dropped", self.name, idx)
            return
        latency = sim._delay(me)
        t = max(self.last_deliver.get(me.name, 0), sim.now + latency)
        self.last_deliver[me.name] = t
        me.inflight += 1
        sim._push(t, "deliver", self, (me, data, idx, False))
        sim.stats["put"] += 1
        sim.sync(me, "put", self.name, idx, len(data))

    def put_nowait(self, obj):
        return self.put(obj, False)

    def get(self, block=True, timeout=None):
        sim = self.sim
        if sim.closed:
            raise _queue.Empty
        me = sim.me()
        sim._check_alive(me)
        first = True
        while True:
            if self.poisoned:
                if not block:
                    sim.sync(me, "get_lock_held_by_dead", self.name)
                    raise _queue.Empty
                sim.log.add(sim.steps, sim.now, me.name, "wait_reader_lock", self.name)
                sim.block(me, None if timeout is None else max(0, timeout) * 1e6)
                if me.timed_out:
                    sim.sync(me, "get_timeout", self.name)
                    raise _queue.Empty
                continue
            if self.fifo:
                producer, data, idx, _ = self.fifo.popleft()
                self.pipe_bytes -= len(data)
                if self.stalled:
                    self._drain_stalled()
                obj = ForkingPickler.loads(data)
                sim.stats["get"] += 1
                sim.gets.append((me.name, self.name, idx))
                sim.sync(me, "get", self.name, idx)
                return obj
            if not block or (not first and me.timed_out):
                sim.sync(me, "get_empty", self.name)
                raise _queue.Empty
            first = False
            self.waiters.append(me)
            sim.log.add(sim.steps, sim.now, me.name, "wait", self.name)
            sim.block(me, None if timeout is None else max(0, timeout) * 1e6)
            if me.timed_out and not self.fifo:
                if me in self.waiters:
                    self.waiters.remove(me)
                sim.sync(me, "get_timeout", self.name)
                raise _queue.Empty

    def get_nowait(self):
        return self.get(False)

    def empty(self):
        sim = self.sim
        if sim.closed:
            return True
        me = sim.me()
        r = not self.fifo
        sim.sync(me, "empty", self.name, int(r))
        return r

    def qsize(self):
        return len(self.fifo)

    def close(self):
        pass

    def join_thread(self):
        pass

    def cancel_join_thread(self):
        pass


class SimProcess:
    _count = 0

    def __init__(self, sim, group=None, target=None, name=None, args=(), kwargs=None,
                 daemon=None):
        self.sim = sim
        self._target = target
        self._args = tuple(args)
        self._kwargs = dict(kwargs or {})
        self.daemon = daemon
        n = sum(1 for p in sim.parts if not p.is_main) + 1
        self.part = _Part(f"W{n}")
        self.name = name or self.part.name
        sim.parts.append(self.part)
        sim.procs.append(self)
        self.pid = None

    def start(self):
        sim = self.sim
        if sim.closed:
            return
        me = sim.me()
        part = self.part
        part.started = True
        self.pid = 1000 + len(sim.parts)
        part.speed = SPEEDS[sim.choices.draw(len(SPEEDS))]
        part.thread = threading.Thread(
            target=sim._thread_body,
            args=(part, self._target, self._args, self._kwargs),
            name=f"procsim-{part.name}",
            daemon=True,
        )
        part.thread.start()
        if sim.iso is not None:
            sim.iso.discover()
            part.store = sim.iso.fork_copy()
        sim._ready(part, sim._delay(part))
        sim.sync(me, "start", part.name, part.speed)

    def is_alive(self):
        return self.part.started and self.part.state != "dead"

    @property
    def exitcode(self):
        return self.part.exitcode

    def terminate(self):
        sim = self.sim
        if sim.closed:
            return
        sim.log.add(sim.steps, sim.now, sim.current.name, "terminate", self.part.name)
        sim.kill(self.part)

    kill = terminate

    def join(self, timeout=None):
        sim = self.sim
        if sim.closed or self.part.state == "dead" or not self.part.started:
            return
        me = sim.me()
        self.part.exit_waiters.append(me)
        sim.log.add(sim.steps, sim.now, me.name, "join", self.part.name)
        sim.block(me, None if timeout is None else max(0, timeout) * 1e6)

    def close(self):
        pass


class SimTime:
    """Stands in for the `time` module inside parallel_map: time()/monotonic() read the
    simulated clock, sleep() is a sync point that advances it."""

    def __init__(self, sim, real):
        self._sim = sim
        self._real = real

    def time(self):
        return self._sim.now / 1e6

    monotonic = perf_counter = time

    def sleep(self, seconds):
        sim = self._sim
        if sim.closed:
            return
        me = sim.me()
        sim._check_alive(me)
        sim.log.add(sim.steps, sim.now, me.name, "sleep", int(seconds * 1e6))
        sim._ready(me, int(max(0.0, seconds) * 1e6))
        sim._schedule(me)

    def __getattr__(self, name):
        return getattr(self._real, name)


class SimConnection:
    """One end of multiprocessing.Pipe(): messages in order, recv() blocks (a scheduling
    point), send() pickles in the caller - a pickling error is the sender's, unlike a
    Queue, whose feeder thread drops the item.  Not modelled: send() blocking on a full
    pipe (the model never blocks a sender, so it can miss a hang but not invent one)."""

    def __init__(self, rq, wq):
        self._rq = rq
        self._wq = wq

    def send(self, obj):
        if self._wq is None:
            raise OSError("connection is read-only")
        ForkingPickler.dumps(obj)  # raises in the sender, as Connection.send does
        self._wq.put(obj)

    def recv(self):
        if self._rq is None:
            raise OSError("connection is write-only")
        return self._rq.get()

    def poll(self, timeout=0.0):
        if self._rq is None:
            raise OSError("connection is write-only")
        if not self._rq.empty():
            return True
        if timeout:
            from .core import HarnessError

            raise HarnessError("procsim does not model Connection.poll(timeout) on an "
                               "empty pipe")
        return False

    def close(self):
        pass

    def __getattr__(self, name):
        from .core import HarnessError

        raise HarnessError(f"procsim does not model Connection.{name}")


class SimMP:
    """What `hypnotoad.utils.parallel_map` sees instead of the multiprocessing module."""

    def __init__(self, sim):
        self._sim = sim

    def Queue(self, maxsize=0):
        return SimQueue(self._sim)

    SimpleQueue = Queue

    def Process(self, *a, **kw):
        return SimProcess(self._sim, *a, **kw)

    def cpu_count(self):
        return 16

    def Pipe(self, duplex=True):
        a, b = SimQueue(self._sim), SimQueue(self._sim)
        if duplex:
            return SimConnection(a, b), SimConnection(b, a)
        return SimConnection(a, None), SimConnection(None, a)

    def get_context(self, method=None):
        return self

    def current_process(self):
        class _P:
            name = self._sim.current.name if self._sim.current else "P0"

        return _P()

    def __getattr__(self, name):
        from .core import HarnessError

        raise HarnessError(f"procsim does not model multiprocessing.{name}")


def call_signature(sim, task_q="Q1", result_q="Q2"):
    """(task -> worker assignment, completion order) of everything that went through the
    two queues of one ParallelMap: the measure of 'distinct interleavings reached'."""
    assign = tuple((w, i) for (w, q, i) in sim.gets if q == task_q)
    order = tuple(i for (w, q, i) in sim.gets if q == result_q)
    return assign, order
