"""Driving the real command-line entry points in-process (argv patched, cwd = scratch)."""

import contextlib
import os
import sys
import traceback

from . import core, faults, workloads
from .procsim import ProcSim, SimAbort


@contextlib.contextmanager
def _argv_cwd(argv, cwd):
    old_argv = sys.argv
    old_cwd = os.getcwd()
    sys.argv = list(argv)
    os.chdir(cwd)
    try:
        yield
    finally:
        sys.argv = old_argv
        os.chdir(old_cwd)


def run_entry(entry, argv, cwd, np_=1, choices=None, seams=(), clock=None, keep_log=False,
              step_cap=400000):
    """Call `entry()` (a script's main) with sys.argv = argv in directory cwd.

    np_ > 1 puts the run on procsim (the YAML must itself carry number_of_processors).
    `seams` are extra context managers (fault injectors).  Returns a result dict with
    outcome returned / raised / hung; no hypnotoad exception escapes."""
    sim = None
    if np_ > 1:
        sim = ProcSim(choices or core.Choices(given=[]), step_cap=step_cap,
                      keep_log=keep_log, isolate=core.ISOLATE)
    res = {"outcome": None, "exc": None, "msg": None}
    with contextlib.ExitStack() as st:
        st.enter_context(workloads.env_seams())
        if clock is not None:
            st.enter_context(clock.installed())
        else:
            st.enter_context(faults.inline_timeout())
        for s in seams:
            st.enter_context(s)
        if sim is not None:
            st.enter_context(sim.installed())
        st.enter_context(_argv_cwd(argv, cwd))
        try:
            entry()
            res["outcome"] = "returned"
        except SimAbort as e:
            res["outcome"] = "hung"
            res["exc"] = e.verdict
        except SystemExit as e:
            res["outcome"] = "raised"
            res["exc"] = "SystemExit"
            res["msg"] = str(e.code)
        except BaseException as e:  # noqa: BLE001
            if isinstance(e, (KeyboardInterrupt, core.HarnessError)):
                raise
            res["outcome"] = "raised"
            res["exc"] = type(e).__name__
            res["msg"] = str(e)[:300]
            res["tb"] = traceback.format_exc()[-1500:]
        if sim is not None and res["outcome"] != "hung":
            e = None
            try:
                sim.interpreter_exit()
            except SimAbort:
                res["outcome"] = "hung"
                res["exc"] = "EXIT_HANG"
    import gc

    gc.collect()
    if sim is not None:
        if sim.harness_error is not None:
            raise core.HarnessError(str(sim.harness_error))
        res.update({"steps": sim.steps, "sim_time_us": sim.now,
                    "event_log_digest": sim.log.digest(),
                    "choices": sim.choices.trace, "sim_stats": dict(sim.stats)})
    return res


def geqdsk_main():
    from hypnotoad.scripts import hypnotoad_geqdsk

    return hypnotoad_geqdsk.main


def circular_main():
    from hypnotoad.scripts import hypnotoad_circular

    return hypnotoad_circular.main


def recreate_main():
    from hypnotoad.scripts import hypnotoad_recreate_inputs

    return hypnotoad_recreate_inputs.main
