"""hsim: deterministic simulation with fault injection for boutproject/hypnotoad.

See /verif/DESIGN.md.  Everything here runs the *real* hypnotoad code from /repo's
working tree; the only stubs are the seams listed in DESIGN.md section 3.1.
"""
