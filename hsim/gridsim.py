"""Whole-grid generation under the simulator (engine `gridsim`).

A *scenario* is a plain dict (JSON-able, it is the replay file's body):

    family    "circ" | "tok"
    geometry  (tok) lsn/usn/cdn/udn/ldn/udn2
    perturb   (tok) seeded perturbation of the blob parameters
    options   hypnotoad options (number_of_processors is overridden by `np`)
    np        1 = the real serial path; >1 = real ParallelMap on procsim
    buggify   plan for faults.Buggify or None
    clock     plan for faults.ClockSim or None (None => inline func_timeout, no deadline)
    choices   schedule choice trace (replay) or None (draw from `sched_seed`)
    sched_seed integer

`run(scenario, outpath)` never lets a hypnotoad exception escape: the outcome is
classified as returned / raised / hung.
"""

import contextlib
import gc
import os
import random
import traceback

from . import core, faults, workloads
from .procsim import ProcSim, SimAbort, call_signature

ENGINE = "gridsim"
STEP_CAP = 400000


class WorkMeter:
    """Deterministic measure of refinement work (calls of PsiContour.refinePoint).  A
    simulated-parallel run that needs far more work than the serial run of the same
    inputs (e.g. because misplaced results sent a task into endless refinement) is
    stopped with WORKCAP instead of waiting for a wall-clock watchdog."""

    def __init__(self, sim=None, cap=None):
        self.n = 0
        self.sim = sim
        self.cap = cap

    @contextlib.contextmanager
    def installed(self):
        from hypnotoad.core.equilibrium import PsiContour

        real = PsiContour.refinePoint
        meter = self

        def refine_point(self, p, *args, **kw):
            meter.n += 1
            if meter.cap is not None and meter.n > meter.cap and meter.sim is not None:
                if not meter.sim.aborted:
                    meter.sim.aborted = "WORKCAP"
                raise SimAbort("WORKCAP")
            return real(self, p, *args, **kw)

        # every ODE right-hand-side evaluation also counts: a task sent into a
        # never-ending solve_ivp by garbage input is bounded the same way
        import hypnotoad.cases.tokamak as tokmod
        import hypnotoad.core.equilibrium as eqmod
        import hypnotoad.core.mesh as meshmod

        mods = [m for m in (eqmod, meshmod, tokmod) if hasattr(m, "solve_ivp")]
        real_ivp = {m: m.solve_ivp for m in mods}

        def make_ivp(real_solve):
            def solve_ivp(fun, *a, **kw):
                def counted(*fa, **fkw):
                    meter.n += 1
                    if meter.cap is not None and meter.n > meter.cap \
                            and meter.sim is not None:
                        if not meter.sim.aborted:
                            meter.sim.aborted = "WORKCAP"
                        raise SimAbort("WORKCAP")
                    return fun(*fa, **fkw)

                return real_solve(counted, *a, **kw)

            return solve_ivp

        for m in mods:
            m.solve_ivp = make_ivp(real_ivp[m])
        PsiContour.refinePoint = refine_point
        try:
            yield self
        finally:
            PsiContour.refinePoint = real
            for m in mods:
                m.solve_ivp = real_ivp[m]


def build(scenario, options):
    if scenario["family"] == "circ":
        return workloads.build_circular(options)
    arrs = workloads.tokamak_arrays(
        scenario.get("geometry", "lsn"), n=scenario.get("npsi", 65),
        perturb=scenario.get("perturb"), wall=scenario.get("wall", "rect"))
    return workloads.build_tokamak(arrs, options)


def run(scenario, outpath, keep_log=False, after_build=None):
    np_ = int(scenario.get("np", 1))
    options = dict(scenario["options"])
    options["number_of_processors"] = np_
    if scenario.get("choices") is not None:
        choices = core.Choices(given=scenario["choices"])
    else:
        choices = core.Choices(rng=random.Random(core.h64(f"sched/{scenario.get('sched_seed', 0)}")))
    sim = ProcSim(choices, step_cap=STEP_CAP, keep_log=keep_log,
                  isolate=core.ISOLATE) if np_ > 1 else None
    if sim is not None and scenario.get("pipe_capacity"):
        sim.pipe_capacity = int(scenario["pipe_capacity"])
    bug = faults.Buggify(scenario["buggify"]) if scenario.get("buggify") else None
    clk = faults.ClockSim(scenario["clock"]) if scenario.get("clock") else None
    res = {"outcome": None, "exc": None, "msg": None}
    meter = WorkMeter(sim, scenario.get("work_cap") if sim is not None else None)
    with contextlib.ExitStack() as st:
        st.enter_context(workloads.env_seams())
        st.enter_context(meter.installed())
        if clk is not None:
            st.enter_context(clk.installed())
        else:
            st.enter_context(faults.inline_timeout())
        if bug is not None:
            st.enter_context(bug.installed())
        if sim is not None:
            st.enter_context(sim.installed())
        eq = mesh = None
        try:
            eq, mesh = build(scenario, options)
            if after_build is not None:
                after_build(eq, mesh)
            workloads.generate(mesh, outpath)
            res["outcome"] = "returned"
        except SimAbort as e:
            res["outcome"] = "hung"
            res["exc"] = e.verdict
        except BaseException as e:  # noqa: BLE001
            if isinstance(e, (KeyboardInterrupt, core.HarnessError)):
                raise
            res["outcome"] = "raised"
            res["exc"] = type(e).__name__
            res["msg"] = str(e)[:300]
            res["tb"] = traceback.format_exc()[-1500:]
        if sim is not None and res["outcome"] != "hung":
            # the script ends: references dropped, interpreter exits
            e = None
            eq = mesh = None
            try:
                sim.interpreter_exit()
            except SimAbort:
                res["outcome"] = "hung"
                res["exc"] = "EXIT_HANG"
        res["mesh"] = mesh
        res["eq"] = eq
    gc.collect()
    res["work"] = meter.n
    if sim is not None:
        if sim.harness_error is not None:
            raise core.HarnessError(str(sim.harness_error))
        assign, order = call_signature_all(sim)
        res.update({
            "steps": sim.steps, "sim_time_us": sim.now, "sim_stats": dict(sim.stats),
            "event_log_digest": sim.log.digest(), "choices": choices.trace,
            "signature": core.digest_of([assign, order]),
            "log": sim.log.lines if keep_log else None,
        })
    if bug is not None:
        res["buggify"] = bug.counters()
    if clk is not None:
        res["clock"] = clk.counters()
    return res


def call_signature_all(sim):
    assign = tuple((w, q, i) for (w, q, i) in sim.gets if w != "P0")
    order = tuple((q, i) for (w, q, i) in sim.gets if w == "P0")
    return assign, order
