"""Synthetic tasks for driving the real ParallelMap on procsim (workload SYN).

Module-level so that the task function pickles by reference, exactly as hypnotoad's own
task functions do.  Every result reveals its own index and a digest of its argument, so
a misplaced or stale result is attributable.
"""

import hashlib


class FakeEquilibrium:
    """Stands in for an Equilibrium: ParallelMap only needs .psi/.f_R/.f_Z and
    dill-picklability."""

    def __init__(self, tag):
        self.tag = tag

    def psi(self, k):
        return self.tag * 1000 + k

    def f_R(self, k):
        return k + 0.5

    def f_Z(self, k):
        return k - 0.5


class NeedsTwoArgs(Exception):
    """Pickles, but cannot be unpickled (__init__ needs two arguments while
    BaseException.__reduce__ passes self.args == (msg,)): the classic trap for exceptions
    sent through a multiprocessing queue."""

    def __init__(self, a, b):
        super().__init__(f"{a}:{b}")
        self.a = a
        self.b = b


def _digest(payload):
    return hashlib.blake2b(repr(payload).encode(), digest_size=6).hexdigest()


def raise_fault(fault, call_id, k):
    if fault == "exc":
        raise ValueError(f"task {call_id}.{k} failed")
    if fault == "exc_args":
        raise NeedsTwoArgs(call_id, k)
    if fault == "unpicklable":

        class LocalError(Exception):  # like followPerpendicular's MaxIterException
            pass

        raise LocalError(f"task {call_id}.{k} failed")
    if fault == "closure":
        e = RuntimeError(f"task {call_id}.{k} failed")
        e.callback = lambda: k  # like FunctionTimedOut holding the timed-out function
        raise e
    if fault == "base":
        from func_timeout.exceptions import FunctionTimedOut

        raise FunctionTimedOut(f"task {call_id}.{k} timed out", 1.0, lambda: None, (), {})
    raise AssertionError(f"unknown fault kind {fault}")


def syn_task(call_id, k, payload, fault, *, equilibrium, psi, f_R, f_Z, scale=1, **kw):
    if fault != "ok":
        raise_fault(fault, call_id, k)
    return (call_id, k, _digest(payload), psi(k) * scale, f_R(k), f_Z(k), equilibrium.tag)


def serial_reference(eq, call_id, tasks, scale):
    """What a serial map returns / raises for this task list."""
    out = []
    for k, payload, fault in tasks:
        try:
            out.append(
                syn_task(call_id, k, payload, fault, equilibrium=eq, psi=eq.psi, f_R=eq.f_R,
                         f_Z=eq.f_Z, scale=scale)
            )
        except BaseException as e:  # noqa: BLE001
            return None, type(e).__name__
    return out, None
