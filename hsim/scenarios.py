"""Seeded scenario generators (workload + fault plan + schedule seeds)."""

from . import core, workloads

TOK_ORTH_GEOMS = ("lsn", "usn", "cdn", "udn", "ldn")


def fault_plan(rng, key, kinds=("none", "fallback", "exhaust", "timeout"), kind=None):
    """One of the legal failure patterns of the refine machinery, content-addressed so
    that serial and simulated-parallel runs under the same plan are comparable."""
    kind = kind or rng.choice(kinds)
    bug = clk = None
    opts = {}
    if kind == "fallback":
        bug = {"mode": "content", "key": key,
               "arm": {"newton": rng.choice((0.05, 0.3, 1.0))}}
    elif kind == "exhaust":
        # rare failures land somewhere in the middle of a build; frequent ones persist
        # from one refinement iteration to the next (a failure that is retried on
        # slightly moved points must not "heal" just because the hash changed)
        bug = {"mode": "content", "key": key,
               "arm": {"newton": rng.choice((0.3, 1.0)),
                       "integrate": rng.choice((2e-4, 1e-3, 5e-3, 0.2, 1.0))}}
    elif kind == "timeout":
        opts["refine_timeout"] = rng.choice((0.5, 1.0, 10.0))
        if rng.random() < 0.35:
            # a machine so slow that every FineContour refinement passes its deadline
            clk = {"key": key, "slowness": rng.choice((1.0e4, 1.0e6))}
        else:
            clk = {"key": key, "slowness": rng.choice((1.0, 10.0)),
                   "slow_prob": rng.choice((2e-4, 1e-3, 5e-3))}
    return kind, bug, clk, opts


def grid_scenario(rng, key, family=None, fault_kinds=("none",), np_choices=(2, 3, 4),
                  fault_kind=None):
    family = family or rng.choices(("circ-orth", "circ-nonorth", "tok-orth"),
                                   weights=(0.5, 0.3, 0.2))[0]
    if family == "circ-orth":
        sc = {"family": "circ", "options": workloads.circ_options(rng, orthogonal=True)}
    elif family == "circ-nonorth":
        sc = {"family": "circ", "options": workloads.circ_options(rng, orthogonal=False)}
    elif family in ("tok-nonorth", "tok-nonorth-sn"):
        geom = rng.choice(("cdn", "udn", "ldn") if family == "tok-nonorth" else ("lsn", "usn"))
        sc = {"family": "tok", "geometry": geom,
              "options": workloads.tok_options(geom, orthogonal=False,
                                               y_boundary_guards=rng.choice((0, 0, 1))),
              "npsi": 65, "wall": rng.choice(("rect", "slanted"))}
        if geom in ("lsn", "usn"):
            # the example's orthogonal spacings are refused for non-orthogonal single
            # nulls; hypnotoad's own defaults generate (as in regridsim.base_options)
            sc["options"].pop("target_all_poloidal_spacing_length")
            sc["options"].pop("xpoint_poloidal_spacing_length")
    else:
        geom = rng.choice(TOK_ORTH_GEOMS) if family == "tok-orth" else family.split(":")[1]
        sc = {"family": "tok", "geometry": geom,
              "options": workloads.tok_options(geom,
                                               y_boundary_guards=rng.choice((0, 1))),
              "npsi": 65, "wall": rng.choice(("rect", "slanted"))}
    # tuning knobs vary too: parallel == serial must hold for any options
    from .histsim import swarm

    swarm(rng, sc["options"], sc.get("geometry"))
    kind, bug, clk, opts = fault_plan(rng, key, fault_kinds, kind=fault_kind)
    sc["options"].update(opts)
    sc["fault_kind"] = kind
    sc["buggify"] = bug
    sc["clock"] = clk
    sc["np"] = rng.choice(np_choices)
    return sc


def c13_grid_case(verif_seed, index, quick=False):
    seed = core.run_seed(verif_seed, "c13-grid", index)
    rng = core.stream(seed, "workload")
    # stratified so that even a dozen cases cover every family and fault kind
    fam = ("circ-orth", "circ-nonorth", "circ-orth", "tok-orth")[index % 4]
    if quick and fam == "tok-orth":
        fam = "tok:lsn"
    if not quick and index % 16 == 7:
        fam = "tok-nonorth"  # double nulls, non-orthogonal: wall intersections, regrids
    if index % 12 == 11:
        # walled non-orthogonal single null: the one parallel map whose tasks (contours
        # extended to the wall) have unequal sizes
        fam = "tok-nonorth-sn"
    kind = ("none", "fallback", "none", "exhaust", "timeout")[index % 5]
    sc = grid_scenario(rng, seed, family=fam, fault_kind=kind)
    if sc["family"] == "tok" and sc["geometry"] in ("lsn", "usn") and (index // 4) % 2 == 0 \
            and fam != "tok-nonorth-sn":
        # the other interpolant: the equilibrium that reaches the workers (pickled with
        # dill) must interpolate exactly as the caller's does
        sc["options"]["psi_interpolation_method"] = "dct"
    if index % 12 == 5:
        # stratum: the recovery path of followPerpendicular (lines that exceed maxits are
        # truncated, with a warning) taken inside workers
        sc["options"].update({"follow_perpendicular_recover": True,
                              "follow_perpendicular_maxits": rng.choice((30, 40, 60))})
    return {"index": index, "scenario": sc, "seed": seed}
