"""C13 level A: the real ParallelMap on procsim with synthetic tasks (workload SYN).

One run = one ParallelMap with `np` simulated workers, 1..4 successive calls, a fault
plan (which tasks raise what), and a schedule drawn through the choice stream.
"""

from . import core
from .procsim import ProcSim, SimAbort, call_signature
from . import syn_tasks

FAULT_KINDS = ("exc", "exc_args", "unpicklable", "closure", "base")
NTASKS = (0, 1, 2, 3, 4, 5, 8, 13, 21, 40)
NTASKS_W = (1, 3, 4, 4, 3, 3, 3, 2, 1, 0.5)

ENGINE = "procsim-syn"


def make_plan(rng):
    np_ = rng.choice((2, 2, 3, 3, 4, 5, 6))
    ncalls = rng.choice((1, 1, 2, 2, 3, 4))
    faultiness = rng.choice(("none", "some", "some", "heavy"))
    calls = []
    for c in range(ncalls):
        n = rng.choices(NTASKS, weights=NTASKS_W)[0]
        mode = "none"
        if faultiness != "none" and n > 0:
            mode = rng.choices(
                ("none", "one", "first", "last", "several", "all"),
                weights=(3, 4, 1, 1, 2, 1) if faultiness == "some" else (1, 3, 1, 1, 3, 2),
            )[0]
        faulty = set()
        if mode == "one":
            faulty = {rng.randrange(n)}
        elif mode == "first":
            faulty = {0}
        elif mode == "last":
            faulty = {n - 1}
        elif mode == "several":
            faulty = {rng.randrange(n) for _ in range(rng.randint(2, 4))}
        elif mode == "all":
            faulty = set(range(n))
        tasks = []
        # task arguments are usually all the same size (contours of one region) but need
        # not be: contours extended to the wall are longer than their neighbours
        ragged = rng.choice((False, False, True))
        for k in range(n):
            fault = rng.choice(FAULT_KINDS) if k in faulty else "ok"
            payload = [rng.randrange(1000), c, k]
            if ragged:
                payload += [7] * rng.choice((0, 0, 1, 1, 2, 4))
            tasks.append([k, payload, fault])
        calls.append({"tasks": tasks, "scale": rng.choice((1, 2, 3))})
    # pipe capacity under the queues: 64 KiB as on Linux, or small enough for the
    # back-pressure paths to run with these tiny payloads (a result is ~60-110 bytes)
    cap = rng.choice((65536, 65536, 4096, 512, 256, 128))
    plan = {"np": np_, "calls": calls, "eq_tag": rng.randrange(1, 9), "pipe_capacity": cap}
    if rng.random() < 0.3:
        # a second ParallelMap for another equilibrium in the same interpreter (the GUI
        # makes a new Mesh for every "Run"; a script scans a parameter): created after
        # `at` calls, while the first map is still alive or after it - and its
        # equilibrium - have been deleted (the allocator may then reuse the address, see
        # faults.AddressSim).  Later calls go to either map while both live.
        fate = rng.choice(("alive", "alive", "deleted"))
        plan["second"] = {"eq_tag": plan["eq_tag"] + rng.randrange(1, 9),
                          "np": np_ if rng.random() < 0.7 else rng.choice((2, 3, 4)),
                          "at": rng.randrange(0, ncalls + 1), "first": fate}
        for c in calls:
            c["map"] = rng.randrange(2)
        if plan["second"]["at"] == ncalls or not any(c["map"] for c in calls[plan["second"]["at"]:]):
            extra = {"tasks": [[k, [rng.randrange(1000), ncalls, k], "ok"]
                               for k in range(rng.choice((1, 2, 3, 5)))],
                     "scale": 1, "map": 1}
            calls.append(extra)
    return plan


_PRISTINE = []


def _fresh_interpreter_state():
    """Every SYN run starts from the module-level / class-level state hypnotoad had when
    the first run of this process began (procsim.StateIsolation finds the slots), as if
    in a fresh interpreter: a run is then a pure function of (plan, choices) also on a
    tree that keeps state between maps.  Several maps in one interpreter are part of the
    plan instead (plan["second"])."""
    import copy

    from .procsim import StateIsolation

    if not _PRISTINE:
        import hypnotoad.utils.parallel_map  # noqa: F401

        iso = StateIsolation()
        _PRISTINE.extend((iso, iso.fork_copy()))
    iso, store = _PRISTINE
    fresh = []
    for v in store:
        if isinstance(v, iso.CONTAINERS):
            try:
                v = copy.deepcopy(v)
            except Exception:  # noqa: BLE001
                v = copy.copy(v)
        fresh.append(v)
    iso.install(fresh)


def call_budget(n, np_):
    """Bounded liveness: steps a call with n tasks may take on np workers once faults have
    stopped (each task costs about 8 events; each delivery may wake every idle worker)."""
    return 40 * (n + np_) + 400


def run(plan, choices, keep_log=False):
    """Execute one plan.  Returns a record (no exception escapes except HarnessError)."""
    from hypnotoad.utils.parallel_map import ParallelMap

    np_ = plan["np"]
    second = plan.get("second")
    np_max = max(np_, second["np"]) if second else np_
    total_budget = sum(call_budget(len(c["tasks"]), np_max) for c in plan["calls"]) + 200 \
        + (400 + 40 * np_max if second else 0)
    sim = ProcSim(choices, step_cap=total_budget, keep_log=keep_log)
    sim.pipe_capacity = int(plan.get("pipe_capacity", 65536))
    from . import faults

    _fresh_interpreter_state()
    addr = faults.AddressSim()
    eqs = {0: syn_tasks.FakeEquilibrium(plan["eq_tag"])}
    pms = {}
    verdicts = []
    violation = None
    failed = {0: False, 1: False}
    second_made = None
    with sim.installed(), addr.installed():
        pm = None
        try:
            pms[0] = ParallelMap(np_, equilibrium=eqs[0])
            for ci, call in enumerate(plan["calls"]):
                if second and 1 not in eqs and \
                        ci >= min(second["at"], len(plan["calls"]) - 1):
                    if second["first"] == "deleted":
                        # the first Mesh and its equilibrium go away before the next
                        sim.log.add(sim.steps, sim.now, "P0", "delete-map", 0)
                        pm = eq = None
                        del pms[0], eqs[0]
                    eqs[1] = syn_tasks.FakeEquilibrium(second["eq_tag"])
                    sim.log.add(sim.steps, sim.now, "P0", "create-map", 1, second["np"])
                    pms[1] = ParallelMap(second["np"], equilibrium=eqs[1])
                    second_made = second["first"]
                mi = call.get("map", 0) if (second and 1 in eqs) else 0
                if mi not in pms:
                    mi = 1 if 1 in pms else 0
                pm, eq, failed_before = pms[mi], eqs[mi], failed[mi]
                np_ = plan["np"] if mi == 0 else second["np"]
                tasks = call["tasks"]
                expected, exc_name = syn_tasks.serial_reference(eq, ci, tasks, call["scale"])
                args_list = [(ci, k, payload, fault) for k, payload, fault in tasks]
                steps0 = sim.steps
                sim.log.add(sim.steps, sim.now, "P0", "call", ci, len(tasks))
                try:
                    got = pm(syn_tasks.syn_task, args_list, scale=call["scale"])
                    outcome = ("returned", None)
                except SimAbort as e:
                    outcome = ("hung", e.verdict)
                except BaseException as e:  # noqa: BLE001
                    outcome = ("raised", type(e).__name__)
                used = sim.steps - steps0
                sim.log.add(sim.steps, sim.now, "P0", "outcome", ci, *outcome)
                v = {"call": ci, "n": len(tasks), "outcome": outcome[0],
                     "detail": outcome[1], "steps": used,
                     "expect": "raise" if expected is None else "return",
                     "after_failure": failed_before}
                verdicts.append(v)
                if outcome[0] == "hung":
                    violation = {"class": outcome[1], "call": ci,
                                 "detail": f"call {ci} with {len(tasks)} tasks never returned"}
                    break
                if expected is None:
                    if outcome[0] == "returned":
                        violation = {"class": "NO_EXCEPTION", "call": ci,
                                     "detail": f"a task failed ({exc_name} serially) but the "
                                               "call returned normally"}
                        break
                    v["type_preserved"] = outcome[1] == exc_name
                    failed[mi] = True
                else:
                    if outcome[0] == "returned":
                        if got != expected:
                            bad = [i for i, (a, b) in enumerate(zip(got, expected)) if a != b]
                            violation = {"class": "WRONG_RESULT", "call": ci,
                                         "detail": f"positions {bad[:8]} differ from the "
                                                   f"serial list (len {len(got)} vs "
                                                   f"{len(expected)})"}
                            break
                    elif not failed_before:
                        violation = {"class": "SPURIOUS_EXCEPTION", "call": ci,
                                     "detail": f"fault-free call raised {outcome[1]}"}
                        break
                    else:
                        v["post_failure_raise"] = True
                    if used > call_budget(len(tasks), np_):
                        violation = {"class": "LIVENESS", "call": ci,
                                     "detail": f"{used} steps > budget"}
                        break
        except SimAbort as e:
            violation = {"class": e.verdict, "call": -1, "detail": "while creating the map"}
        # the caller drops its references and the interpreter exits
        pm = eq = None
        pms.clear()
        eqs.clear()
        if violation is None:
            try:
                sim.interpreter_exit()
            except SimAbort:
                violation = {"class": "EXIT_HANG", "call": len(verdicts),
                             "detail": "the calling process cannot exit: a non-daemonic "
                                       "worker is still alive and is joined for ever"}
    if sim.harness_error is not None:
        raise core.HarnessError(str(sim.harness_error))
    if sim.stats["leaked_threads"]:
        raise core.HarnessError("procsim leaked a worker thread")
    assign, order = call_signature(sim)
    return {
        "engine": ENGINE,
        "plan": plan,
        "choices": choices.trace,
        "verdicts": verdicts,
        "violation": violation,
        "event_log_digest": sim.log.digest(),
        "events": sim.log.n,
        "steps": sim.steps,
        "sim_time_us": sim.now,
        "stats": dict(sim.stats, address_reused=addr.reused,
                      second_map_first_alive=int(second_made == "alive"),
                      second_map_first_deleted=int(second_made == "deleted")),
        "signature": core.digest_of([assign, order]),
        "nontrivial": len(order) >= 2,
        "log": sim.log.lines if keep_log else None,
    }


def run_index(verif_seed, index, keep_log=False):
    seed = core.run_seed(verif_seed, ENGINE, index)
    plan = make_plan(core.stream(seed, "workload"))
    ch = core.Choices(rng=core.stream(seed, "schedule"))
    rec = run(plan, ch, keep_log=keep_log)
    rec["verif_seed"] = verif_seed
    rec["run_index"] = index
    return rec


def run_replay(rec, keep_log=False):
    ch = core.Choices(given=rec["choices"])
    return run(rec["plan"], ch, keep_log=keep_log)


# ------------------------------------------------------------------ minimisation
def _renumber(plan):
    for call in plan["calls"]:
        for k, t in enumerate(call["tasks"]):
            t[0] = k
    return plan


def _copy(plan):
    import copy

    return copy.deepcopy(plan)


def candidates(cur):
    """Simpler (plan, choices) pairs, simplest reductions first."""
    from .minimize import shrink_choices, shrink_list

    plan, choices = cur
    # fewer calls
    for calls in shrink_list(plan["calls"], min_len=1):
        p = _copy(plan)
        p["calls"] = _copy(calls)
        yield (p, choices)
    # fewer tasks per call
    for ci, call in enumerate(plan["calls"]):
        for tasks in shrink_list(call["tasks"], min_len=0):
            p = _copy(plan)
            p["calls"][ci]["tasks"] = _copy(tasks)
            yield (_renumber(p), choices)
    # fewer / simpler faults
    for ci, call in enumerate(plan["calls"]):
        for ti, t in enumerate(call["tasks"]):
            if t[2] != "ok":
                p = _copy(plan)
                p["calls"][ci]["tasks"][ti][2] = "ok"
                yield (p, choices)
                if t[2] != "exc":
                    p = _copy(plan)
                    p["calls"][ci]["tasks"][ti][2] = "exc"
                    yield (p, choices)
    # one map only
    if plan.get("second"):
        p = _copy(plan)
        del p["second"]
        yield (p, choices)
        if plan["second"]["np"] != plan["np"]:
            p = _copy(plan)
            p["second"]["np"] = plan["np"]
            yield (p, choices)
    # fewer workers
    if plan["np"] > 2:
        p = _copy(plan)
        p["np"] = plan["np"] - 1
        yield (p, choices)
    if plan.get("pipe_capacity", 65536) != 65536:
        p = _copy(plan)
        p["pipe_capacity"] = 65536
        yield (p, choices)
    for call in plan["calls"]:
        if call["scale"] != 1:
            p = _copy(plan)
            for c in p["calls"]:
                c["scale"] = 1
            yield (p, choices)
            break
    # simpler schedule
    for ch in shrink_choices(choices):
        yield (plan, ch)


def minimise(rec, max_evals=600, max_seconds=30.0):
    """Shrink a violating record; the violation class must persist."""
    from .minimize import minimize

    cls = rec["violation"]["class"]

    def test(cand):
        r = run(cand[0], core.Choices(given=cand[1]))
        return r["violation"] is not None and r["violation"]["class"] == cls

    (plan, choices), evals = minimize((rec["plan"], rec["choices"]), candidates, test,
                                      max_evals, max_seconds)
    out = run(plan, core.Choices(given=choices), keep_log=True)
    out["minimised_from"] = {"tasks": sum(len(c["tasks"]) for c in rec["plan"]["calls"]),
                             "calls": len(rec["plan"]["calls"]), "np": rec["plan"]["np"],
                             "choices": len(rec["choices"]), "evals": evals}
    # strip trailing zeros from the executed trace: replay treats missing as 0
    tr = out["choices"]
    while tr and tr[-1] == 0:
        tr.pop()
    return out
