"""C13 level A: the real ParallelMap on procsim with synthetic tasks (workload SYN).

One run = one ParallelMap with `np` simulated workers, 1..4 successive calls, a fault
plan (which tasks raise what), and a schedule drawn through the choice stream.
"""

from . import core
from .procsim import ProcSim, SimAbort, call_signature
from . import syn_tasks

FAULT_KINDS = ("exc", "exc_args", "unpicklable", "closure", "base")
NTASKS = (0, 1, 2, 3, 4, 5, 8, 13, 21, 40)
NTASKS_W = (1, 3, 4, 4, 3, 3, 3, 2, 1, 0.5)

ENGINE = "procsim-syn"


def make_plan(rng):
    np_ = rng.choice((2, 2, 3, 3, 4, 5, 6))
    ncalls = rng.choice((1, 1, 2, 2, 3, 4))
    faultiness = rng.choice(("none", "some", "some", "heavy"))
    calls = []
    for c in range(ncalls):
        n = rng.choices(NTASKS, weights=NTASKS_W)[0]
        mode = "none"
        if faultiness != "none" and n > 0:
            mode = rng.choices(
                ("none", "one", "first", "last", "several", "all"),
                weights=(3, 4, 1, 1, 2, 1) if faultiness == "some" else (1, 3, 1, 1, 3, 2),
            )[0]
        faulty = set()
        if mode == "one":
            faulty = {rng.randrange(n)}
        elif mode == "first":
            faulty = {0}
        elif mode == "last":
            faulty = {n - 1}
        elif mode == "several":
            faulty = {rng.randrange(n) for _ in range(rng.randint(2, 4))}
        elif mode == "all":
            faulty = set(range(n))
        tasks = []
        for k in range(n):
            fault = rng.choice(FAULT_KINDS) if k in faulty else "ok"
            payload = [rng.randrange(1000), c, k]
            tasks.append([k, payload, fault])
        calls.append({"tasks": tasks, "scale": rng.choice((1, 2, 3))})
    return {"np": np_, "calls": calls, "eq_tag": rng.randrange(1, 9)}


def call_budget(n, np_):
    """Bounded liveness: steps a call with n tasks may take on np workers once faults have
    stopped (each task costs about 8 events; each delivery may wake every idle worker)."""
    return 40 * (n + np_) + 400


def run(plan, choices, keep_log=False):
    """Execute one plan.  Returns a record (no exception escapes except HarnessError)."""
    from hypnotoad.utils.parallel_map import ParallelMap

    np_ = plan["np"]
    total_budget = sum(call_budget(len(c["tasks"]), np_) for c in plan["calls"]) + 200
    sim = ProcSim(choices, step_cap=total_budget, keep_log=keep_log)
    eq = syn_tasks.FakeEquilibrium(plan["eq_tag"])
    verdicts = []
    violation = None
    failed_before = False
    with sim.installed():
        pm = None
        try:
            pm = ParallelMap(np_, equilibrium=eq)
            for ci, call in enumerate(plan["calls"]):
                tasks = call["tasks"]
                expected, exc_name = syn_tasks.serial_reference(eq, ci, tasks, call["scale"])
                args_list = [(ci, k, payload, fault) for k, payload, fault in tasks]
                steps0 = sim.steps
                sim.log.add(sim.steps, sim.now, "P0", "call", ci, len(tasks))
                try:
                    got = pm(syn_tasks.syn_task, args_list, scale=call["scale"])
                    outcome = ("returned", None)
                except SimAbort as e:
                    outcome = ("hung", e.verdict)
                except BaseException as e:  # noqa: BLE001
                    outcome = ("raised", type(e).__name__)
                used = sim.steps - steps0
                sim.log.add(sim.steps, sim.now, "P0", "outcome", ci, *outcome)
                v = {"call": ci, "n": len(tasks), "outcome": outcome[0],
                     "detail": outcome[1], "steps": used,
                     "expect": "raise" if expected is None else "return",
                     "after_failure": failed_before}
                verdicts.append(v)
                if outcome[0] == "hung":
                    violation = {"class": outcome[1], "call": ci,
                                 "detail": f"call {ci} with {len(tasks)} tasks never returned"}
                    break
                if expected is None:
                    if outcome[0] == "returned":
                        violation = {"class": "NO_EXCEPTION", "call": ci,
                                     "detail": f"a task failed ({exc_name} serially) but the "
                                               "call returned normally"}
                        break
                    v["type_preserved"] = outcome[1] == exc_name
                    failed_before = True
                else:
                    if outcome[0] == "returned":
                        if got != expected:
                            bad = [i for i, (a, b) in enumerate(zip(got, expected)) if a != b]
                            violation = {"class": "WRONG_RESULT", "call": ci,
                                         "detail": f"positions {bad[:8]} differ from the "
                                                   f"serial list (len {len(got)} vs "
                                                   f"{len(expected)})"}
                            break
                    elif not failed_before:
                        violation = {"class": "SPURIOUS_EXCEPTION", "call": ci,
                                     "detail": f"fault-free call raised {outcome[1]}"}
                        break
                    else:
                        v["post_failure_raise"] = True
                    if used > call_budget(len(tasks), np_):
                        violation = {"class": "LIVENESS", "call": ci,
                                     "detail": f"{used} steps > budget"}
                        break
        except SimAbort as e:
            violation = {"class": e.verdict, "call": -1, "detail": "while creating the map"}
        finally:
            try:
                del pm
            except Exception:
                pass
    if sim.harness_error is not None:
        raise core.HarnessError(str(sim.harness_error))
    if sim.stats["leaked_threads"]:
        raise core.HarnessError("procsim leaked a worker thread")
    assign, order = call_signature(sim)
    return {
        "engine": ENGINE,
        "plan": plan,
        "choices": choices.trace,
        "verdicts": verdicts,
        "violation": violation,
        "event_log_digest": sim.log.digest(),
        "events": sim.log.n,
        "steps": sim.steps,
        "sim_time_us": sim.now,
        "stats": dict(sim.stats),
        "signature": core.digest_of([assign, order]),
        "nontrivial": len(order) >= 2,
        "log": sim.log.lines if keep_log else None,
    }


def run_index(verif_seed, index, keep_log=False):
    seed = core.run_seed(verif_seed, ENGINE, index)
    plan = make_plan(core.stream(seed, "workload"))
    ch = core.Choices(rng=core.stream(seed, "schedule"))
    rec = run(plan, ch, keep_log=keep_log)
    rec["verif_seed"] = verif_seed
    rec["run_index"] = index
    return rec


def run_replay(rec, keep_log=False):
    ch = core.Choices(given=rec["choices"])
    return run(rec["plan"], ch, keep_log=keep_log)
